"""./check selftest : demonstrates that the trace specifications bind (DESIGN 3.4): a recorded good
trace is accepted; the same trace with one field corrupted, or one event removed, is rejected at
that line.  Exit 0 iff all of this holds."""
import json, os, re, sys
import vlib


def _expect(ctx, module, cfg, trace, name, accept, at=None, **kw):
    ok, hw, total, out = ctx.validate_trace(module, trace, cfg, label=name, **kw)
    good = (ok == accept) and (accept or at is None or hw == at)
    print("%s %-38s accepted=%s high-water=%s expected_accept=%s%s" % ("ok  " if good else "FAIL", name, ok, hw, accept,
                                                                     "" if at is None else " expected_line=%d" % at))
    return good


def main(tier, seed):
    ctx = vlib.Ctx("selftest", tier, seed)
    rc = 0
    try:
        ctx.build_harness()
        # ---- Trace_Lib
        tr = os.path.join(ctx.work, "lib.ndjson")
        ctx.record("record-lib", ["-scenario", "small", "-seed", str(seed), "-runs", "2"], tr)
        lines = open(tr).read().splitlines()
        good = _expect(ctx, "Trace_Lib", "Trace_Lib.cfg", tr, "Trace_Lib: recorded trace", True)
        # corrupt one count
        idx = [i for i, l in enumerate(lines) if '"ev":"Exec"' in l and '"ok":true' in l][5]
        bad = list(lines)
        bad[idx] = re.sub(r'"count":(\d+)', lambda m: '"count":%d' % (int(m.group(1)) + 1), bad[idx], count=1)
        p = os.path.join(ctx.work, "lib_bad1.ndjson")
        open(p, "w").write("\n".join(bad) + "\n")
        good &= _expect(ctx, "Trace_Lib", "Trace_Lib.cfg", p, "Trace_Lib: one count + 1", False, at=idx + 1)
        # drop the Flush event
        idx = [i for i, l in enumerate(lines) if '"ev":"Flush"' in l][0]
        bad = lines[:idx] + lines[idx + 1:]
        p = os.path.join(ctx.work, "lib_bad2.ndjson")
        open(p, "w").write("\n".join(bad) + "\n")
        good &= _expect(ctx, "Trace_Lib", "Trace_Lib.cfg", p, "Trace_Lib: Flush event removed", False, at=idx + 1)
        # a returned row id changed
        idx = [i for i, l in enumerate(lines) if '"ev":"AddRows"' in l and '"ids":[0' in l][0]
        bad = list(lines)
        bad[idx] = bad[idx].replace('"ids":[0', '"ids":[1', 1)
        p = os.path.join(ctx.work, "lib_bad3.ndjson")
        open(p, "w").write("\n".join(bad) + "\n")
        good &= _expect(ctx, "Trace_Lib", "Trace_Lib.cfg", p, "Trace_Lib: returned row id changed", False, at=idx + 1)
        # ---- Trace_LRU (branching)
        tr = os.path.join(ctx.work, "lru.ndjson")
        ctx.record("record-lru", ["-seed", str(seed), "-runs", "4", "-ops", "200"], tr)
        lines = open(tr).read().splitlines()
        good &= _expect(ctx, "Trace_LRU", "Trace_LRU.cfg", tr, "Trace_LRU: recorded trace", True, deque=True)
        idx = [i for i, l in enumerate(lines) if '"ev":"Get"' in l and '"hit":true' in l][10]
        bad = list(lines)
        bad[idx] = bad[idx].replace('"hit":true', '"hit":false')
        p = os.path.join(ctx.work, "lru_bad.ndjson")
        open(p, "w").write("\n".join(bad) + "\n")
        good &= _expect(ctx, "Trace_LRU", "Trace_LRU.cfg", p, "Trace_LRU: one hit flag flipped", False, at=idx + 1, deque=True)
        rc = 0 if good else 1
    except vlib.Broken as e:
        print("SELFTEST-BROKEN:", e)
        rc = 2
    finally:
        ctx.close()
    return rc
