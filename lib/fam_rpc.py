"""C13 (gRPC batch = library, in order) and C14 (no request can crash the server). Spec UpdogRPC."""
import json, os
from vlib import Broken, log


def run(ctx):
    thorough = ctx.tier == "thorough"
    ctx.build_harness()
    updog = ctx.build_updog()
    seed = str(ctx.seed)
    ctx.cov["rule"] = ("UpdogRPC/MC_RPC: batches of 0..2 (thorough: some of 3) queries from 16 queries (3 valid, unknown column in expression / group-by, a hole at every position of "
                       "small trees, AND/OR without operands) x ids {0, 5}: one result per query in order with the right id, no partial response, process stays up (negative control: "
                       "hole dereferenced). Every batch is sent to a real `updog server` process for cache x preload in {on,off}^2 with a well-formed probe after every failing batch, "
                       "and through convert.ToQuery+Execute in-process with every way of leaving a message part unset; random requests incl. mutated wire bytes and nesting up to "
                       "5000 are validated by Trace_RPC. distinct_nontrivial = batches + recorded requests.")
    ctx.assumptions += ["a server that cannot be started (ports, binary) is a broken check (exit 2), never a violation"]
    ctx.design("MC_RPC", "MC_RPC.cfg", label="batch semantics")
    if thorough:
        ctx.design("MC_RPC", ctx.cfg_variant("MC_RPC.cfg", dict(MaxBatch=3, MaxReqs=1)), label="batches of 3")
    ctx.negative_control("MC_RPC", ctx.cfg_variant("MC_RPC.cfg", dict(NoNilCheck="TRUE")), label="neg:NoNilCheck")
    path = os.path.join(ctx.work, "rpc.ndjson")
    r = ctx.gen_to_file("MC_RPC", ctx.cfg_variant("MC_RPC.cfg", dict(Emit="TRUE", MaxReqs=0, MaxBatch=3 if thorough else 2)), path, workers=4, label="gen-batches")
    if r["emitted"] < 100:
        raise Broken("MC_RPC emitted too few batches")
    ctx.run_replay("replay-rpc", ["-in", path, "-seed", seed, "-updog", updog, "-stride", "16" if thorough else "4"] + (["-binprobe"] if ctx.pid == "C13" else []), "replay-rpc", sigkeys=("kind",), timeout=3000)
    ctx.cov["exhaustive"] = True
    tr = os.path.join(ctx.work, "rpc_trace.ndjson")
    ctx.record("record-rpc", ["-seed", seed, "-updog", updog, "-n", "4000" if thorough else "300"], tr, timeout=3000)
    ctx.check_trace("Trace_RPC", "Trace_RPC.cfg", tr, "trace-rpc", must_have=("Request", "Alive"), run_marker="Setup")


def replay(ctx, path):
    ctx.build_harness()
    rp = json.load(open(path))["replay"]
    if "trace_slice" in rp:
        tr = os.path.join(ctx.work, "slice.ndjson")
        open(tr, "w").write("\n".join(rp["trace_slice"]) + "\n")
        ctx.check_trace(rp["module"], rp["cfg"], tr, "replay-slice", run_marker="Setup")
    else:
        log(json.dumps(rp, indent=1)[:3000])
        raise Broken("re-run the check to replay enumerated batches")
