"""C15 (opening fails cleanly, file always released) and C16 (no clobbering, reading never modifies).
Specs: UpdogStore (validation outcomes + flock), UpdogLib (file system frame conditions)."""
import json, os
from vlib import Broken, log


def run(ctx):
    thorough = ctx.tier == "thorough"
    ctx.build_harness()
    seed = str(ctx.seed)
    if ctx.pid == "C15":
        ctx.cov["rule"] = ("UpdogStore: 26 file variants (absent, no bucket, schema ok/missing/garbage x row counter ok/missing/short/long x bitmaps ok/garbage) x all "
                           "histories of MaxSteps calls over {open on-demand, open preloaded, close}: no panic/hang, file lock free whenever no handle is open, nothing "
                           "created (negative controls: lock kept on failure, missing bucket dereferenced). Every history is replayed on real files damaged through the "
                           "bbolt API with watchdog + recover; after each call the lock is probed with bbolt.Open(Timeout) and the path with os.Stat.")
        ctx.assumptions += ["damage is applied through the bbolt API (structurally valid bbolt files), as the property states"]
        steps = 6 if thorough else 4
        ctx.design("MC_Store", ctx.cfg_variant("MC_Store.cfg", dict(MaxSteps=steps + 1)), label="store")
        ctx.negative_control("MC_Store", ctx.cfg_variant("MC_Store.cfg", dict(KeepLockOnFailure="TRUE")), label="neg:KeepLockOnFailure")
        ctx.negative_control("MC_Store", ctx.cfg_variant("MC_Store.cfg", dict(NoBucketCheck="TRUE")), label="neg:NoBucketCheck")
        path = os.path.join(ctx.work, "store.ndjson")
        r = ctx.gen_to_file("MC_Store", ctx.cfg_variant("MC_Store.cfg", dict(MaxSteps=steps, Emit="TRUE")), path, workers=2, label="gen-store")
        if r["emitted"] < 20:
            raise Broken("MC_Store emitted nothing")
        ctx.run_replay("replay-store", ["-in", path, "-seed", seed], "replay-store", sigkeys=("kind",), timeout=3000)
        ctx.cov["exhaustive"] = True
    else:
        ctx.cov["rule"] = ("UpdogLib: only a successful Flush / the big writer's exclusive creation changes a file (action properties ReadOnlyOps, NoClobber; negative control "
                           "ClobberOnFlush). Recorded histories: pre-existing {empty file, arbitrary bytes, read-only file, valid index, read-only index} x three writers, then "
                           "open/query/schema/close with every option combination; every event carries the identity of the file's SHA-256 and Trace_Lib requires it unchanged "
                           "whenever the specification says the file is unchanged.")
        ctx.design("MC_Lib", ctx.cfg_variant("MC_Lib.cfg", dict(MaxRows=1, MaxExecs=1 if not thorough else 2)), label="frame conditions")
        ctx.negative_control("MC_Lib", ctx.cfg_variant("MC_Lib.cfg", dict(ClobberOnFlush="TRUE", MaxRows=1, MaxExecs=0)), label="neg:ClobberOnFlush")
        tr = os.path.join(ctx.work, "clobber.ndjson")
        ctx.record("record-lib", ["-scenario", "clobber", "-seed", seed, "-runs", "40" if thorough else "10"], tr)
        ctx.check_trace("Trace_Lib", "Trace_Lib.cfg", tr, "trace-clobber", must_have=("Plant", "Flush", "Exec", "Close"))
        tr = os.path.join(ctx.work, "overlap.ndjson")
        ctx.record("record-lib", ["-scenario", "overlap", "-seed", seed, "-runs", "18" if thorough else "6"], tr)
        ctx.check_trace("Trace_Lib", "Trace_Lib.cfg", tr, "trace-overlapping-flushes", must_have=("FlushOverlap", "Flush", "Exec"))
        tr = os.path.join(ctx.work, "small.ndjson")
        ctx.record("record-lib", ["-scenario", "small", "-seed", seed, "-runs", "12" if thorough else "4"], tr)
        ctx.check_trace("Trace_Lib", "Trace_Lib.cfg", tr, "trace-small-hashed", must_have=("Exec",))
        # the command line (`updog create [-b] -o path`, C16's anchor in cmd/updog/create.go): every enumerated CSV onto an occupied
        # path (junk file, dangling symbolic link, index): exit status 1 and the occupant untouched (UpdogCLI.NeverClobbers)
        updog = ctx.build_updog()
        path = os.path.join(ctx.work, "cli.ndjson")
        r = ctx.gen_to_file("MC_CLI", ctx.cfg_variant("MC_CLI.cfg", dict(MaxRecs=2, Emit="TRUE")), path, workers=4, label="gen-cli")
        if r["emitted"] < 100:
            raise Broken("MC_CLI emitted too few cases")
        ctx.run_replay("replay-cli", ["-in", path, "-updog", updog, "-stride", "1" if thorough else "4", "-pre", "occupied"], "replay-cli-occupied-output",
                       sigkeys=("kind", "defect", "pre"), timeout=3000)
        os.remove(path)
        # files written in several transactions (> 1000 values), by every writer
        tr = os.path.join(ctx.work, "boundary.ndjson")
        ctx.record("record-lib", ["-scenario", "boundary", "-seed", seed, "-sizes", "1001,1002,1003,2500" if thorough else "1001,1002,1003"], tr)
        ctx.check_trace("Trace_Lib", "Trace_Lib.cfg", tr, "trace-boundary-hashed", must_have=("Exec",))


def replay(ctx, path):
    ctx.build_harness()
    rp = json.load(open(path))["replay"]
    if "trace_slice" in rp:
        tr = os.path.join(ctx.work, "slice.ndjson")
        open(tr, "w").write("\n".join(rp["trace_slice"]) + "\n")
        ctx.check_trace(rp["module"], rp["cfg"], tr, "replay-slice")
    else:
        one = os.path.join(ctx.work, "one.ndjson")
        open(one, "w").write(json.dumps({"tag": "store", "file": rp["file"], "steps": rp["steps"]}) + "\n")
        log("note: expected outcomes in this replay file are those of the prefix that failed")
        ctx.run_replay("replay-store", ["-in", one], "replay-store", sigkeys=("kind",))
