"""C19: `updog create` ingests a CSV faithfully in both modes. Spec UpdogCLI, generator MC_CLI."""
import json, os
from vlib import Broken, log


def run(ctx):
    thorough = ctx.tier == "thorough"
    ctx.build_harness()
    updog = ctx.build_updog()
    ctx.cov["rule"] = ("UpdogCLI/MC_CLI: headers of 1..2 fields over 5 header-field shapes (lower, upper, space, non-ASCII) with distinct normalisation x 0..MaxRecs records over 6 "
                       "field classes (plain, quote, comma, newline, non-ASCII, empty) + ragged / bare-quote defects x {normal, --big} x {output absent, junk file, index}: exit "
                       "status and output state as specified, existing outputs never change. Every case is run through the built binary; the output is opened with the library "
                       "and its observable projection compared with a reference index built from the rows the specification prescribes; `updog schema` exit status.")
    ctx.assumptions += ["Unicode lower-casing is represented by character classes; the harness concretises them (non-ASCII class: U+00C9)",
                        "the library (validated against the specification by C01/C02/C05) serves as comparison device for the observable projection of the two index files"]
    ctx.design("MC_CLI", ctx.cfg_variant("MC_CLI.cfg", dict(MaxRecs=3 if thorough else 2)), label="create/schema")
    path = os.path.join(ctx.work, "cli.ndjson")
    r = ctx.gen_to_file("MC_CLI", ctx.cfg_variant("MC_CLI.cfg", dict(MaxRecs=3 if thorough else 2, Emit="TRUE")), path, workers=4, label="gen-cli")
    if r["emitted"] < 100:
        raise Broken("MC_CLI emitted too few cases")
    ctx.run_replay("replay-cli", ["-in", path, "-updog", updog, "-stride", "1" if thorough else "5"], "replay-cli", sigkeys=("kind", "defect", "pre"), timeout=3000)
    ctx.cov["exhaustive"] = thorough


def replay(ctx, path):
    log(open(path).read()[:3000])
    raise Broken("re-run the check to replay enumerated cases")
