"""C11 (placeholder binding / prepared statements), C12 (driver rows), C17 (driver handles).
Specs: UpdogStmt (BindR, StmtOutcomes, RowsOf), UpdogSQL (connection cache, pool slots, flock)."""
import json, os
from vlib import Broken, log
import fam_conc


def run(ctx):
    thorough = ctx.tier == "thorough"
    ctx.build_harness()
    seed = str(ctx.seed)
    if ctx.pid == "C11":
        ctx.cov["rule"] = ("Gen_Stmt: 9 templates (placeholders repeated, out of order, with gaps, none, unknown column) x every argument list of length 0..3 (thorough 4) over 3 values; "
                           "TLC: templates immutable under any execution sequence, Bind leaves no placeholder. Replay through database/sql: every (template, args) via DB.Query, one "
                           "prepared statement per template over 25 seeded executions, ReplacePlaceholders directly (bound tree exact, template unchanged); outcome must be in the "
                           "set the property allows (error when too few arguments, never a panic).")
        ma = 4 if thorough else 3
        ctx.design("Gen_Stmt", ctx.cfg_variant("Gen_Stmt.cfg", dict(MaxArgs=ma)), label="templates immutable", workers=4)
        path = os.path.join(ctx.work, "stmt.ndjson")
        r = ctx.gen_to_file("Gen_Stmt", ctx.cfg_variant("Gen_Stmt.cfg", dict(MaxArgs=ma, Emit="TRUE")), path, workers=2, label="gen-stmt")
        if r["emitted"] < 5:
            raise Broken("Gen_Stmt emitted nothing")
        for s in ([ctx.seed, ctx.seed + 1, ctx.seed + 2, ctx.seed + 3] if thorough else [ctx.seed, ctx.seed + 1]):   # odd seeds: adversarial argument strings
            ctx.run_replay("replay-stmt", ["-in", path, "-seed", str(s)], "replay-stmt", sigkeys=("kind",))
        # arguments bound as Go integers, floats and booleans (rendered by the driver to the strings the data holds)
        ctx.run_replay("replay-stmt", ["-in", path, "-seed", seed, "-dict", "numeric"], "replay-stmt-typed-arguments", sigkeys=("kind",))
        ctx.cov["exhaustive"] = True
    elif ctx.pid == "C12":
        ctx.cov["rule"] = ("RowsOf/ColsOf over the library result (UpdogStmt): one row per group, none for a grouped query without match, one count row otherwise; columns = "
                           "group-by columns + count, TEXT.. BIGINT. Every TLC-enumerated dataset (Gen_Lib: count and group selections) is opened through sql.Open with the four "
                           "preload x lrucache option strings and every query of the projection is compared (Columns, ColumnTypes, every scanned row, Err). UpdogCursor/MC_Cursor: two result sets of one handle read at the same time, every interleaving "
                           "of their steps (open, next row, end): each delivers exactly its own rows; the enumerated step orders are applied to pairs of real *sql.Rows.")
        import fam_lib
        # result sets are snapshots (UpdogCursor): every interleaving of the steps of two cursors; the step orders are replayed below
        ctx.design("MC_Cursor", "MC_Cursor.cfg", label="result sets are snapshots", workers=2)
        ctx.negative_control("MC_Cursor", ctx.cfg_variant("MC_Cursor.cfg", dict(SharedBuffer="TRUE")), label="neg:SharedBuffer", workers=2)
        sched = os.path.join(ctx.work, "sched.ndjson")
        r = ctx.gen_to_file("MC_Cursor", ctx.cfg_variant("MC_Cursor.cfg", dict(Emit="TRUE", LenA=3 if thorough else 2)), sched, workers=1, label="gen-cursor-orders")
        if r["emitted"] < 30:
            raise Broken("MC_Cursor emitted too few step orders")
        for sel, mr, gb in [("count", 3 if thorough else 2, 0), ("groups", 3 if thorough else 2, 2)]:
            cfg = ctx.cfg_variant("Gen_Lib.cfg", dict(MaxRows=mr, MaxGB=gb, GenSel='"%s"' % sel))
            path = os.path.join(ctx.work, "gen_%s.ndjson" % sel)
            r = ctx.gen_to_file("Gen_Lib", cfg, path, workers=8, label="gen-" + sel)
            ctx.cov["states"] += r["distinct"]
            ctx.cov["transitions"] += r["generated"]
            ctx.run_replay("replay-sql", ["-in", path, "-seed", seed, "-sched", sched], "replay-sql-" + sel, sigkeys=("kind", "dsn"))
            if sel == "groups":
                # group-by columns that are themselves called count / COUNT / counts
                ctx.run_replay("replay-sql", ["-in", path, "-seed", seed, "-dict", "countnames"], "replay-sql-columns-named-count", sigkeys=("kind", "dsn"))
            if sel == "count":
                # literals that differ only in the white space inside them
                ctx.run_replay("replay-sql", ["-in", path, "-seed", seed, "-dict", "ws"], "replay-sql-whitespace-values", sigkeys=("kind", "dsn"))
            os.remove(path)
        ctx.design("Gen_Stmt", "Gen_Stmt.cfg", label="rows", workers=4)
        # data source names, Exec, transactions (driver surface around the rows), bound arguments
        path = os.path.join(ctx.work, "dsn.ndjson")
        r = ctx.gen_to_file("Gen_Stmt", ctx.cfg_variant("Gen_Stmt.cfg", dict(Emit="TRUE", MaxArgs=2)), path, workers=2, label="gen-dsn+stmt")
        ctx.run_replay("replay-dsn", ["-in", path, "-seed", seed], "replay-dsn", sigkeys=("kind",))
        ctx.run_replay("replay-stmt", ["-in", path, "-seed", seed], "replay-stmt(rows of bound queries)", sigkeys=("kind",))
        ctx.run_replay("replay-stmt", ["-in", path, "-seed", seed, "-dict", "numeric"], "replay-stmt-typed-arguments", sigkeys=("kind",))
        ctx.cov["exhaustive"] = True
    else:
        ctx.cov["rule"] = ("UpdogSQL: connection cache with reference counts, pool slots per sql.DB, file locks; 2 handles x 2 threads x 2 files, all interleavings up to MaxSteps: no use "
                           "after close, refs exact, file released when no handle uses it, no thread stuck (negative controls: no driver mutex, closed connection kept in cache). "
                           "Every sequential history of 6 calls (7 thorough) is replayed through database/sql with watchdog and lock probes; concurrent first use by 2..16 goroutines "
                           "(race build) is validated by Trace_SQL; critical-section probes in the driver's open/close (Trace_CS).")
        ctx.assumptions += ["two handles on the same file with different option strings are excluded from the exhaustive runs (known finding: the second open blocks on the file lock)"]
        ctx.design("MC_SQL", ctx.cfg_variant("MC_SQL.cfg", dict(MaxSteps=9 if thorough else 7)), label="conn cache")
        if thorough:
            ctx.design("MC_SQL", ctx.cfg_variant("MC_SQL.cfg", dict(MaxSteps=14, Handles="{1, 2, 3}", Threads="{1, 2, 3}")), label="conn cache 3 handles x 3 threads")
        ctx.negative_control("MC_SQL", ctx.cfg_variant("MC_SQL.cfg", dict(NoDriverMutex="TRUE")), label="neg:NoDriverMutex")
        ctx.negative_control("MC_SQL", ctx.cfg_variant("MC_SQL.cfg", dict(KeepClosedConnInCache="TRUE")), label="neg:KeepClosedConnInCache")
        path = os.path.join(ctx.work, "hist.ndjson")
        r = ctx.gen_to_file("Gen_SQL", ctx.cfg_variant("Gen_SQL.cfg", dict(MaxSteps=8 if thorough else 6)), path, workers=4, label="gen-hist")
        if r["emitted"] < 50:
            raise Broken("Gen_SQL emitted nothing")
        ctx.run_replay("replay-sqlhist", ["-in", path, "-seed", seed], "replay-sqlhist", sigkeys=("kind",), timeout=3000)
        ctx.cov["exhaustive"] = True
        os.remove(path)
        # the known finding: same file, two option strings
        path = os.path.join(ctx.work, "hist2.ndjson")
        r = ctx.gen_to_file("Gen_SQL", ctx.cfg_variant("Gen_SQL.cfg", dict(MaxSteps=4, Keys="KeysTwoOpt")), path, workers=4, label="gen-hist-two-options")
        hangs = [l for l in open(path) if '"out":"hang"' in l][:1]      # one per process: the stuck goroutine keeps the driver mutex
        open(path, "w").writelines(hangs)
        if hangs:
            # The model (cache keyed by file+options, exclusive file lock) predicts a hang here.  Only a hang or a
            # panic of the real code is reported (the hang is the recorded known finding); any orderly outcome --
            # an error, or a shared connection answering correctly -- satisfies the property.
            rc, out, err = ctx.drive(["replay-sqlhist", "-in", path, "-seed", seed], env_extra={"VERIF_WORK": ctx.work}, timeout=600)
            if rc != 0:
                raise Broken("replay-sqlhist (two option strings) failed: " + err[-1500:])
            rep = json.loads(out.strip().splitlines()[-1])
            ctx.cov["replayed_behaviours"] += rep.get("behaviours", 0)
            hung = not rep.get("mismatches")          # the model's "hang" was matched step by step
            for m in rep.get("mismatches", []):
                if m.get("got") == "panic":
                    ctx.violation({"check": "replay-sqlhist-two-options", "kind": "panic"}, m, "second handle with another option string: panic " + json.dumps(m)[:600])
                elif m.get("got") == "hang":
                    hung = True
            if hung:
                ctx.violation({"check": "two-option-strings-same-file"}, {"histories": [json.loads(h) for h in hangs]},
                              "a second handle on an open file with another option string blocks forever (model and code agree)")
            log("[replay] two option strings on one file: %s" % ("hang (known finding)" if hung else "no hang"))
        race = ctx.build_harness(race=True)
        tr = os.path.join(ctx.work, "sqlconc.ndjson")
        fam_conc._race_record(ctx, race, "record-sql-conc", ["-seed", seed, "-cycles", "120" if thorough else "12"], tr)
        ctx.check_trace("Trace_SQL", "Trace_SQL.cfg", tr, "trace-sql-conc(race build)", must_have=("Query", "DBClose", "Probe"), run_marker="Cycle", deque=True)
        tr = os.path.join(ctx.work, "cs.ndjson")
        ctx.record("record-cs", ["-rounds", "4", "-only", "driver"], tr)
        ctx.check_trace("Trace_CS", "Trace_CS.cfg", tr, "trace-cs-driver", must_have=("CS", "Rel"), run_marker="Round")


def replay(ctx, path):
    ctx.build_harness()
    rp = json.load(open(path))["replay"]
    if "trace_slice" in rp:
        tr = os.path.join(ctx.work, "slice.ndjson")
        open(tr, "w").write("\n".join(rp["trace_slice"]) + "\n")
        ctx.check_trace(rp["module"], rp["cfg"], tr, "replay-slice", deque=True, run_marker="Cycle")
    else:
        log(json.dumps(rp, indent=1)[:3000])
        raise Broken("re-run the check to replay enumerated behaviours")
