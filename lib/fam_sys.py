"""SYS (not a listed property): the deployed system as a whole -- `updog create`, `schema`, `server`,
`client`, `driver` composed (spec UpdogSys, bounded instance / generator MC_Sys).  TLC checks the
composition (snapshot semantics of the server, files only change through create/rm, negative control:
a server that follows the path); simulated command histories are replayed on the real binaries with
the exit status and the parsed standard output of every command compared."""
import json, os, random
from vlib import Broken, log


def run(ctx):
    thorough = ctx.tier == "thorough"
    ctx.build_harness()
    updog = ctx.build_updog()
    ctx.cov["rule"] = ("UpdogSys/MC_Sys: every history of MaxSteps command lines over {create (4 CSVs x big), rm, junk, schema [--full], server (cache x preload), stop, "
                       "client (49 query lists), driver (file | grpc, 49 query lists)}: ClientAnswersSnapshot, DriverAnswers, OnlyCreateWrites, NeverInPlace; negative control "
                       "ServerFollowsFile. Simulated histories of 6 commands are replayed on the built binary (three concrete dictionaries whose CSV headers need normalising): "
                       "exit status, client blocks, driver tables, schema tables, files untouched by read-only commands, server alive.")
    ctx.assumptions += ["tablewriter / tabwriter layout is parsed back (cells trimmed, header upper-cased with '_' shown as blank); values avoid white space and '|'",
                        "a failed `create --big` may or may not leave a junk file; the harness follows the alternative the generated behaviour chose"]
    ctx.design("MC_Sys", ctx.cfg_variant("MC_Sys.cfg", dict(MaxSteps=5 if thorough else 4)), label="system composition")
    ctx.negative_control("MC_Sys", ctx.cfg_variant("MC_Sys.cfg", dict(ServerFollowsFile="TRUE", MaxSteps=5)), label="neg:ServerFollowsFile")
    path = os.path.join(ctx.work, "sys_all.ndjson")
    r = ctx.gen_to_file("MC_Sys", "Gen_Sys.cfg", path, workers=1, simulate="num=%d" % (400 if thorough else 100), depth=14,
                        extra=["-seed", str(ctx.seed)], label="gen-sys")
    lines = sorted(set(open(path).read().splitlines()))
    os.remove(path)
    if len(lines) < 50:
        raise Broken("MC_Sys emitted too few histories")
    random.Random(ctx.seed).shuffle(lines)
    lines = lines[:(3000 if thorough else 400)]
    sel = os.path.join(ctx.work, "sys.ndjson")
    open(sel, "w").write("\n".join(lines) + "\n")
    rep = ctx.run_replay("replay-sys", ["-in", sel, "-updog", updog, "-seed", str(ctx.seed), "-par", "12"], "replay-sys", sigkeys=("kind", "why"), timeout=3000)
    ok = rep.get("notes", {}).get("commands_succeeded", {})
    ctx.cov["commands_succeeded"] = ok
    for k in ("create", "schema", "server", "client", "driver"):
        if ok.get(k, 0) < 5:
            raise Broken("replay-sys hardly exercised successful `%s` commands: %s" % (k, ok))
    os.remove(sel)


def replay(ctx, path):
    log(open(path).read()[:3000])
    raise Broken("re-run ./check SYS with the same VERIF_SEED")
