"""C06: index creation is crash-atomic. Spec UpdogCrash (commit steps + Crash), Trace_Crash."""
import json, os
from vlib import Broken, log


def run(ctx):
    thorough = ctx.tier == "thorough"
    ctx.build_harness()
    updog = ctx.build_updog()
    ctx.cov["rule"] = ("UpdogCrash: both writers as sequences of commits with Crash enabled everywhere, totals 0..5 with batch 2: a file that opens is complete "
                       "(negative control: header in the first commit, the code as found). Binding: a verif hook after every tx.Commit() snapshots the output; each "
                       "snapshot's raw bbolt projection must be the result of a model commit action and opening it with the real OpenIndex (both modes, watchdog, "
                       "recover) must be absent/rejected/opened-and-identical exactly as the model prescribes; datasets on both sides of 1000 values / 1000 rows for "
                       "3 writers; `updog create [-b]` SIGKILLed at seeded instants. distinct_nontrivial = (dataset, writer) runs + kill runs.")
    ctx.assumptions += ["bbolt's own transaction atomicity is trusted (as the property states)"]
    ctx.design("MC_Crash", "MC_Crash.cfg", label="crash-safe", workers=2)
    ctx.negative_control("MC_Crash", ctx.cfg_variant("MC_Crash.cfg", dict(HeaderFirst="TRUE")), label="neg:HeaderFirst", workers=2)
    tr = os.path.join(ctx.work, "crash.ndjson")
    args = ["record-crash", "-out", tr, "-seed", str(ctx.seed), "-values", "0,1,2,5,999,1000,1001,1999,2000,2001,2500,3001,4500" if thorough else "0,5,1000,1001,2500",
            "-updog", updog, "-kills", "80" if thorough else "8"]
    rc, out, err = ctx.drive(args, timeout=3000, env_extra={"VERIF_WORK": ctx.work})
    if rc != 0:
        # Opening a surviving file maps it into memory; a file cut off in the middle can kill the opening process with a memory
        # fault that no recover() catches.  That is an observation about the code under test (the recorder only opens what the
        # killed creator left behind), not a failure of the check: the trace ends with an event no action matches.
        if any(m in err for m in ("unexpected fault address", "fatal error: fault", "SIGBUS", "signal SIGSEGV")) and os.path.exists(tr):
            good = []
            for line in open(tr, "rb").read().split(b"\n"):
                if not line.strip():
                    continue
                try:
                    json.loads(line)
                except Exception:
                    break
                good.append(line)
            with open(tr, "wb") as f:
                f.write(b"".join(l + b"\n" for l in good))
                f.write((json.dumps({"ev": "OpenerDied", "report": err[:1500]}) + "\n").encode())
        else:
            raise Broken("vdrive record-crash failed rc=%d:\n%s" % (rc, (out + err)[-3000:]))
    n = sum(1 for _ in open(tr))
    if n == 0:
        raise Broken("vdrive record-crash recorded an empty trace")
    ctx.cov["trace_events"] += n
    ctx.check_trace("Trace_Crash", "Trace_Crash.cfg", tr, "trace-crash", must_have=("Snap", "CrashOpen", "Kill", "Refused"), run_marker="Begin")


def replay(ctx, path):
    ctx.build_harness()
    rp = json.load(open(path))["replay"]
    tr = os.path.join(ctx.work, "slice.ndjson")
    open(tr, "w").write("\n".join(rp["trace_slice"]) + "\n")
    ctx.check_trace(rp["module"], rp["cfg"], tr, "replay-slice", run_marker="Begin")
