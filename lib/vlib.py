"""Shared machinery for the updog TLA+ checks: scratch dirs, harness build, TLC runs,
emission parsing, trace validation, evidence and verdict handling."""
import json, os, re, shutil, subprocess, sys, tempfile, time, hashlib

VERIF = os.path.dirname(os.path.dirname(os.path.abspath(__file__)))
REPO = os.environ.get("VERIF_REPO", "/repo")
SPEC = os.path.join(VERIF, "spec")
HARNESS = os.path.join(VERIF, "harness")
TLAJAR = "/opt/veriftools/tla/tla2tools.jar:/opt/veriftools/tla/CommunityModules-deps.jar"
OUT = os.path.join(VERIF, "out")          # replay files (git-ignored)
EVID = os.path.join(VERIF, "evidence")
NCPU = os.cpu_count() or 4


class Broken(Exception):
    """The check itself could not run (tool failure, build failure, dead driver): exit 2."""


def log(*a):
    print(*a, file=sys.stderr, flush=True)


class Ctx:
    def __init__(self, pid, tier, seed):
        self.pid, self.tier, self.seed = pid, tier, seed
        self.t0 = time.time()
        base = "/dev/shm" if os.path.isdir("/dev/shm") and os.access("/dev/shm", os.W_OK) else tempfile.gettempdir()
        self.scratch = tempfile.mkdtemp(prefix="updogverif_%s_" % pid, dir=base)
        self.tmp = os.path.join(self.scratch, "tmp")
        os.makedirs(self.tmp)
        self.work = os.path.join(self.scratch, "work")
        os.makedirs(self.work)
        self.env = dict(os.environ)
        self.env.update(GOFLAGS="-mod=mod", GOPROXY="off", GOSUMDB="off", GOTOOLCHAIN="local",
                        TMPDIR=self.tmp, VERIF_SEED=str(seed))
        self.violations = []      # (signature, replay path, text)
        self.known_hits = []
        self.cov = dict(states=0, transitions=0, traces_validated_against_impl=0, samples=[],
                        evaluations=0, distinct_nontrivial=0, rule="", exhaustive=False,
                        tlc_runs=[], replayed_behaviours=0, trace_events=0, negative_controls=[])
        self.assumptions = []
        self.vdrive = None
        self._tlc_n = 0

    # ------------------------------------------------------------------ cleanup
    def close(self):
        shutil.rmtree(self.scratch, ignore_errors=True)

    # ------------------------------------------------------------------ harness
    def build_harness(self, race=False, tags="verif"):
        """go build the harness against /repo's current working tree."""
        hdir = os.path.join(self.scratch, "harness")
        if not os.path.isdir(hdir):
            shutil.copytree(HARNESS, hdir)
            shutil.copy(os.path.join(REPO, "go.sum"), os.path.join(hdir, "go.sum"))
            gm = open(os.path.join(hdir, "go.mod")).read().replace("=> /repo", "=> " + REPO)
            open(os.path.join(hdir, "go.mod"), "w").write(gm)
        out = os.path.join(self.scratch, "vdrive_race" if race else "vdrive")
        cmd = ["go", "build", "-tags", tags]
        if race:
            cmd.append("-race")
        cmd += ["-o", out, "./cmd/vdrive"]
        t = time.time()
        p = subprocess.run(cmd, cwd=hdir, env=self.env, capture_output=True, text=True)
        if p.returncode != 0:
            raise Broken("harness build failed:\n" + p.stdout + p.stderr)
        log("[build] %s in %.1fs" % (os.path.basename(out), time.time() - t))
        if not race:
            self.vdrive = out
        return out

    def build_updog(self, race=False):
        out = os.path.join(self.scratch, "updog_race" if race else "updog")
        cmd = ["go", "build", "-tags", "verif"] + (["-race"] if race else []) + ["-o", out, "./cmd/updog"]
        p = subprocess.run(cmd, cwd=REPO, env=self.env, capture_output=True, text=True)
        if p.returncode != 0:
            raise Broken("updog build failed:\n" + p.stdout + p.stderr)
        return out

    def drive(self, args, binary=None, timeout=3600, stdin=None, env_extra=None):
        """Run the harness; returns (rc, stdout, stderr)."""
        env = dict(self.env)
        if env_extra:
            env.update(env_extra)
        p = subprocess.run([binary or self.vdrive] + args, cwd=self.work, env=env,
                           capture_output=True, text=True, timeout=timeout, input=stdin)
        return p.returncode, p.stdout, p.stderr

    # ------------------------------------------------------------------ TLC
    def tlc(self, module, cfg=None, workers=None, simulate=None, depth=None, extra=None,
            env_extra=None, timeout=3600, deque=False, coverage=False, expect_violation=False,
            label=None, xss=None):
        """Run TLC on spec/<module>.tla with spec/<cfg>. Returns dict(out, states, distinct, ok, violated)."""
        self._tlc_n += 1
        md = os.path.join(self.scratch, "md%d" % self._tlc_n)
        os.makedirs(md)
        specdir = self.specdir()
        cfg = cfg or (module + ".cfg")
        jopts = "-Djava.io.tmpdir=%s" % self.tmp
        if deque:
            jopts += " -Dtlc2.tool.queue.IStateQueue=StateDeque"
        cmd = ["java", "-XX:+UseParallelGC"]
        if xss:
            cmd.append("-Xss" + xss)
        cmd += ["-cp", TLAJAR, "tlc2.TLC", "-noGenerateSpecTE", "-metadir", md,
                "-workers", str(workers or "auto"), "-config", cfg]
        if simulate:
            cmd += ["-simulate", simulate]
        if depth:
            cmd += ["-depth", str(depth)]
        if coverage:
            cmd += ["-coverage", "1"]
        if extra:
            cmd += extra
        cmd.append(module + ".tla")
        env = dict(self.env)
        env["JAVA_TOOL_OPTIONS"] = jopts
        if env_extra:
            env.update(env_extra)
        t = time.time()
        try:
            p = subprocess.run(cmd, cwd=specdir, env=env, capture_output=True, text=True, timeout=timeout)
        except subprocess.TimeoutExpired:
            raise Broken("TLC timeout on %s/%s" % (module, cfg))
        finally:
            shutil.rmtree(md, ignore_errors=True)
        out = p.stdout
        dt = time.time() - t
        m = re.findall(r"(\d+) states generated, (\d+) distinct states found", out)
        gen, dist = (int(m[-1][0]), int(m[-1][1])) if m else (0, 0)
        violated = bool(re.search(r"Error: (Invariant|Action property|Temporal properties|Deadlock|Property) ", out)) \
            or "is violated" in out or "was violated" in out or "Deadlock reached" in out
        failed_post = bool(re.search(r"Postcondition .* is false", out))
        errors = [l for l in out.splitlines() if l.startswith("Error:")]
        tool_err = bool(errors) and not violated and not failed_post
        res = dict(out=out, err=p.stderr, generated=gen, distinct=dist, rc=p.returncode, wall=dt,
                   violated=violated, failed_post=failed_post, errors=errors)
        self.cov["tlc_runs"].append(dict(module=module, cfg=cfg, label=label or "", generated=gen,
                                         distinct=dist, wall_s=round(dt, 2),
                                         mode="simulate" if simulate else "exhaustive",
                                         outcome="violated" if violated else ("postfail" if failed_post else "ok")))
        log("[tlc] %s/%s %s: %d generated, %d distinct, %.1fs rc=%d%s" % (
            module, cfg, label or "", gen, dist, dt, p.returncode, " VIOLATED" if violated else ""))
        if tool_err or (p.returncode != 0 and not violated and not failed_post):
            raise Broken("TLC error on %s/%s:\n%s\n%s" % (module, cfg, "\n".join(out.splitlines()[-40:]), p.stderr[-2000:]))
        if not expect_violation and not simulate:
            self.cov["states"] += dist
            self.cov["transitions"] += gen
        return res

    def specdir(self):
        d = os.path.join(self.scratch, "spec")
        if not os.path.isdir(d):
            shutil.copytree(SPEC, d)
        return d

    def cfg_variant(self, base, overrides, name=None, drop=None, add=None):
        """Derive a .cfg from spec/<base> with `Name = value` lines replaced (negative controls,
        tier-dependent bounds).  drop: invariant/property names to remove; add: raw lines."""
        d = self.specdir()
        txt = open(os.path.join(d, base)).read()
        for k, v in overrides.items():
            txt, n = re.subn(r"(?m)^(\s*%s\s*(?:=|<-)\s*).*$" % re.escape(k), lambda m: m.group(1) + str(v), txt)
            if n == 0:
                raise Broken("cfg_variant: constant %s not in %s" % (k, base))
        for nm in (drop or []):
            txt = re.sub(r"\b%s\b" % re.escape(nm), "", txt)
        if add:
            txt += "\n" + "\n".join(add) + "\n"
        self._cfg_n = getattr(self, "_cfg_n", 0) + 1
        name = name or ("%s_v%d.cfg" % (base[:-4], self._cfg_n))
        open(os.path.join(d, name), "w").write(txt)
        return name

    def gen_to_file(self, module, cfg, path, **kw):
        """Run a Gen_* module and write the emitted JSON values as ndjson. Returns count."""
        r = self.tlc(module, cfg, expect_violation=True, **kw)
        if r["violated"] or r["failed_post"]:
            raise Broken("generator %s/%s failed:\n%s" % (module, cfg, "\n".join(r["out"].splitlines()[-40:])))
        n = 0
        with open(path, "w") as f:
            for line in r["out"].splitlines():
                if line.startswith('"{') or line.startswith('"['):
                    try:
                        f.write(json.loads(line) + "\n")
                        n += 1
                    except Exception:
                        pass
        r["emitted"] = n
        r["out"] = ""
        return r

    def run_replay(self, subcmd, args, what, binary=None, timeout=3600, sigkeys=("kind", "cfg"), env_extra=None):
        """Run a vdrive replay-* command, turn its mismatches into violations. Returns the report."""
        ee = {"VERIF_WORK": self.work}
        if env_extra:
            ee.update(env_extra)
        rc, out, err = self.drive([subcmd] + args, binary=binary, timeout=timeout, env_extra=ee)
        if rc != 0:
            raise Broken("vdrive %s failed rc=%d:\n%s" % (subcmd, rc, err[-3000:]))
        try:
            rep = json.loads(out.strip().splitlines()[-1])
        except Exception:
            raise Broken("vdrive %s printed no report:\n%s\n%s" % (subcmd, out[-1000:], err[-2000:]))
        self.cov["replayed_behaviours"] += rep.get("behaviours", 0)
        self.cov["evaluations"] += rep.get("steps", 0)
        self.cov["distinct_nontrivial"] += rep.get("distinct") or rep.get("behaviours", 0)
        for s in rep.get("samples") or []:
            self.sample({"replay": what, "case": s})
        for m in rep.get("mismatches", []):
            sig = {"check": what}
            if "input" in m:
                sig["input"] = m["input"]
            for k in sigkeys:
                if k in m:
                    sig[k] = m[k]
            sig["detail"] = hashlib.sha1(json.dumps(m, sort_keys=True, default=str).encode()).hexdigest()[:10]
            self.violation(sig, m, "%s: real code differs from the specification: %s" % (what, json.dumps(m, default=str)[:1500]))
        log("[replay] %s: %d behaviours, %d steps, %d mismatches" % (what, rep.get("behaviours", 0), rep.get("steps", 0), len(rep.get("mismatches", []))))
        return rep

    def record(self, subcmd, args, trace, binary=None, timeout=3600, env_extra=None):
        ee = {"VERIF_WORK": self.work}
        if env_extra:
            ee.update(env_extra)
        rc, out, err = self.drive([subcmd, "-out", trace] + args, binary=binary, timeout=timeout, env_extra=ee)
        if rc != 0:
            raise Broken("vdrive %s failed rc=%d:\n%s" % (subcmd, rc, (out + err)[-3000:]))
        n = sum(1 for _ in open(trace))
        if n == 0:
            raise Broken("vdrive %s recorded an empty trace" % subcmd)
        self.cov["trace_events"] += n
        return n

    def check_trace(self, module, cfg, trace, what, must_have=(), deque=False, timeout=3600, env_extra=None, run_marker="Reset"):
        """Validate one recorded (concatenated) trace; a rejection becomes a violation whose replay
        file is the slice of the trace from the last Reset to the first unmatched line."""
        lines = open(trace).read().splitlines()
        evs = set()
        nreset = 0
        for ln in lines:
            m = re.search(r'"ev": ?"([A-Za-z]+)"', ln)
            if m:
                evs.add(m.group(1))
                if m.group(1) == run_marker:
                    nreset += 1
        ok, hw, total, out = self.validate_trace(module, trace, cfg, deque=deque, timeout=timeout, label=what, env_extra=env_extra)
        self.cov["traces_validated_against_impl"] += max(nreset, 1)
        self.cov["evaluations"] += len(lines)
        self.cov["distinct_nontrivial"] += max(nreset, 1)
        if len(lines) > 3:
            self.sample({"trace": what, "events": [json.loads(x) if len(x) < 600 else x[:600] + "..." for x in lines[:6]]})
        if ok:
            # an accepted trace that lacks events it must contain means a hook or driver is broken, not a verdict
            for ev in must_have:
                if ev not in evs:
                    raise Broken("%s: recorded trace has no %s event (hook or driver broken)" % (what, ev))
            log("[trace] %s: accepted, %d events, %d runs" % (what, len(lines), nreset))
            return True
        if hw < 0:
            # an invariant failed: find the line from the TLC output (value of l in the last state)
            ms = re.findall(r"/\\ l = (\d+)", out)
            hw = int(ms[-1]) if ms else 1
            hw = max(1, hw - 1)
        start = 0
        for i in range(min(hw, len(lines)) - 1, -1, -1):
            if '"ev":"%s"' % run_marker in lines[i]:
                start = i
                break
        sl = lines[start:hw]
        bad = lines[hw - 1] if 0 < hw <= len(lines) else ""
        m = re.search(r'"ev": ?"([A-Za-z]+)"', bad)
        sig = {"check": what, "event": m.group(1) if m else "?",
               "detail": hashlib.sha1(bad.encode()).hexdigest()[:10]}
        self.violation(sig, {"trace_slice": sl, "rejected_line": bad, "module": module, "cfg": cfg},
                       "%s: trace of the real code rejected by %s at line %d: %s" % (what, module, hw, bad[:1200]))
        log("[trace] %s: REJECTED at line %d of %d" % (what, hw, len(lines)))
        return False

    def apalache(self, module, cfg, args, expect_error=False, timeout=600, label=""):
        """Optional extra: Apalache run (inductive step).  Returns "ok" | "error" | "unavailable"; never a verdict."""
        d = self.specdir()
        outdir = os.path.join(self.scratch, "apalache-out")
        cmd = ["apalache-mc", "check", "--out-dir=" + outdir, "--config=" + cfg] + args + [module + ".tla"]
        t = time.time()
        try:
            p = subprocess.run(cmd, cwd=d, env=self.env, capture_output=True, text=True, timeout=timeout)
            out = p.stdout + p.stderr
            res = "ok" if "EXITCODE: OK" in out else ("error" if "Checker has found an error" in out else "unavailable")
        except (subprocess.TimeoutExpired, FileNotFoundError):
            res = "unavailable"
        shutil.rmtree(outdir, ignore_errors=True)
        self.cov.setdefault("apalache_runs", []).append(dict(label=label, args=" ".join(args), outcome=res, wall_s=round(time.time() - t, 1)))
        log("[apalache] %s %s: %s (%.1fs)" % (module, label, res, time.time() - t))
        return res

    def design(self, module, cfg=None, **kw):
        """Exhaustive TLC run that must pass (design-level obligation)."""
        r = self.tlc(module, cfg, **kw)
        if r["violated"] or r["failed_post"]:
            raise Broken("design-level TLC run %s/%s reports a violation of the *model*:\n%s" % (
                module, cfg or module, "\n".join(r["out"].splitlines()[-60:])))
        return r

    def negative_control(self, module, cfg, **kw):
        """TLC run on a deliberately wrong design: must find a violation (shows the invariant bites)."""
        r = self.tlc(module, cfg, expect_violation=True, **kw)
        ok = r["violated"] or r["failed_post"]
        self.cov["negative_controls"].append(dict(cfg=cfg, found=ok))
        if not ok:
            raise Broken("negative control %s/%s found no violation: the invariant is vacuous" % (module, cfg))
        return r

    @staticmethod
    def emitted(out, tag=None):
        """Parse PrintT(ToJson(..)) lines from TLC stdout."""
        res = []
        for line in out.splitlines():
            if line.startswith('"{') or line.startswith('"['):
                try:
                    v = json.loads(json.loads(line))
                except Exception:
                    continue
                if tag is None or (isinstance(v, dict) and v.get("tag") == tag):
                    res.append(v)
        return res

    def validate_trace(self, module, trace_path, cfg=None, deque=False, timeout=3600, label=None, env_extra=None):
        """TLC trace validation. Returns (accepted, highwater, total, out)."""
        env = {"TRACE": trace_path}
        if env_extra:
            env.update(env_extra)
        r = self.tlc(module, cfg, workers=1, env_extra=env, deque=deque, timeout=timeout,
                     expect_violation=True, label=label or "trace", xss="512m")
        m = re.findall(r'<<"MAXL", (\d+), (\d+)>>', r["out"])
        if not m:
            if r["violated"]:
                # an invariant of the trace spec failed: treat as rejection at the current high water
                return False, -1, -1, r["out"]
            raise Broken("trace validation produced no verdict:\n" + "\n".join(r["out"].splitlines()[-40:]) + r["err"][-2000:])
        hw, total = int(m[-1][0]), int(m[-1][1])
        accepted = (hw == total) and not r["violated"] and not r["failed_post"]
        self.cov["states"] += r["distinct"]
        self.cov["transitions"] += r["generated"]
        return accepted, hw, total, r["out"]

    # ------------------------------------------------------------------ verdicts
    def violation(self, signature, replay_obj, text):
        os.makedirs(os.path.join(OUT, self.pid), exist_ok=True)
        h = hashlib.sha1(json.dumps(signature, sort_keys=True).encode()).hexdigest()[:12]
        path = os.path.join(OUT, self.pid, "replay_%s.json" % h)
        with open(path, "w") as f:
            json.dump(dict(property=self.pid, signature=signature, text=text, replay=replay_obj), f, indent=1, default=str)
        self.violations.append((signature, path, text))

    def sample(self, obj, cap=6):
        if len(self.cov["samples"]) < cap:
            self.cov["samples"].append(obj)


def load_known():
    p = os.path.join(VERIF, "known_findings.json")
    if not os.path.exists(p):
        return []
    return json.load(open(p)).get("findings", [])


def finish(ctx, level="model_checking"):
    """Apply known-findings filter, write evidence, print verdict lines, return exit code."""
    known = [k for k in load_known() if k.get("property") == ctx.pid and k.get("status") == "known"]
    real = []
    seen_known = {}
    for sig, path, text in ctx.violations:
        hit = None
        for k in known:
            if all(sig.get(a) == b for a, b in k.get("match", {}).items()):
                hit = k
                break
        if hit is not None:
            seen_known[hit["id"]] = hit
        else:
            real.append((sig, path, text))
    for k in seen_known.values():
        print("KNOWN-FINDING: property=%s %s" % (ctx.pid, k.get("what", k["id"])))
    cov = ctx.cov
    if not cov["samples"]:
        cov["samples"] = ["(no sample recorded)"]
    ev = dict(property_id=ctx.pid, tier=ctx.tier, seed=ctx.seed, level=level, coverage=cov,
              assumptions=ctx.assumptions, wall_s=round(time.time() - ctx.t0, 2), violations=len(real),
              known_findings_seen=sorted(seen_known))
    extra = not re.fullmatch(r"C\d\d", ctx.pid)      # system-level extras (./check SYS) are not listed properties
    evdir = os.path.join(VERIF, "evidence_extra") if extra else EVID
    os.makedirs(evdir, exist_ok=True)
    with open(os.path.join(evdir, ctx.pid + ".json"), "w") as f:
        json.dump(ev, f, indent=1, default=str)
        f.write("\n")
    shown = set()
    for sig, path, text in real:
        if path in shown:
            continue
        shown.add(path)
        if len(shown) <= 8:
            log("violation: " + text[:700])
            print(("DEVIATION extra=%s replay=%s" if extra else "VIOLATION property=%s replay=%s") % (ctx.pid, path))
    if len(shown) > 8:
        log("(%d further violations not listed)" % (len(shown) - 8))
    return 1 if real else 0
