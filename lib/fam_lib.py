"""Library family: C01 (count), C02 (group-by), C05 (round trip / writers agree), C08 (query re-use).
Spec: UpdogCore + UpdogLib; design runs MC_Core / MC_Lib; replay Gen_Lib -> vdrive replay-lib;
traces vdrive record-lib -> Trace_Lib."""
import json, os
from vlib import Broken, log

ALLCFG = "mem:ondemand:none,mem:preload:none,memdb:ondemand:none,memdb:preload:none,big:ondemand:none,big:preload:none"


AMBCFG = "mem:ondemand:none,memdb:preload:none,big:ondemand:none"


def _gen_replay(ctx, sel, maxrows, depth2, maxgb, unique, what, reopen=False, configs=ALLCFG):
    cfg = ctx.cfg_variant("Gen_Lib.cfg", dict(MaxRows=maxrows, Depth2=depth2, MaxGB=maxgb,
                                              WithUnique=unique, GenSel='"%s"' % sel))
    path = os.path.join(ctx.work, "gen_%s.ndjson" % sel)
    r = ctx.gen_to_file("Gen_Lib", cfg, path, workers=8, label="gen-" + sel)
    if r["emitted"] < 2:
        raise Broken("Gen_Lib emitted nothing")
    args = ["-in", path, "-seed", str(ctx.seed), "-configs", configs]
    if reopen:
        args.append("-reopen")
    rep = ctx.run_replay("replay-lib", args, what)
    # second pass with the adversarial dictionary (prefix column names, values making up the difference)
    args2 = ["-in", path, "-seed", str(ctx.seed), "-configs", AMBCFG, "-dict", "ambiguous"] + (["-reopen"] if reopen else [])
    ctx.run_replay("replay-lib", args2, what + "-ambiguous-dict")
    os.remove(path)
    return rep


def _traces(ctx, scenario, what, runs=4, sizes=None, must=("Exec",)):
    tr = os.path.join(ctx.work, "trace_%s.ndjson" % scenario)
    args = ["-scenario", scenario, "-seed", str(ctx.seed), "-runs", str(runs)]
    if sizes:
        args += ["-sizes", ",".join(map(str, sizes))]
    ctx.record("record-lib", args, tr)
    ok = ctx.check_trace("Trace_Lib", "Trace_Lib.cfg", tr, what, must_have=must)
    os.remove(tr)
    return ok


def run(ctx):
    thorough = ctx.tier == "thorough"
    ctx.build_harness()
    pid = ctx.pid
    ctx.assumptions += [
        "64-bit xxhash collisions between distinct (column,value) pairs are assumed away (spec keys are the pairs)",
        "roaring / bbolt / gob byte formats are outside the TLA+ model; they are reached only through the real code in replay and trace validation",
        "column names containing NUL are excluded from these runs (reported separately, see known findings)",
    ]
    if pid == "C01":
        ctx.cov["rule"] = ("TLC enumerates every dataset of <=MaxRows rows over 9 row shapes (2 columns x 2 values, columns may be missing, empty rows) "
                           "and proves EvalBM over the written file = Sat-based count for every expression of the query set; the same datasets and "
                           "expected answers are replayed on the real code for 3 writers x 2 open modes; seeded large datasets are recorded and "
                           "validated by Trace_Lib. distinct_nontrivial counts datasets (replay) and independent recorded runs (traces).")
        mr = 4 if thorough else 3
        c = ctx.cfg_variant("MC_Core.cfg", dict(MaxRows=mr if not thorough else 3, MaxGB=0, Depth2="TRUE" if thorough else "FALSE"))
        ctx.design("MC_Core", c, label="AlgoEqSpec")
        if thorough:
            c4 = ctx.cfg_variant("MC_Core.cfg", dict(MaxRows=4, MaxGB=0))
            ctx.design("MC_Core", c4, label="AlgoEqSpec rows<=4")
            for nc in ("NotOffByOne", "DropLastBitmap"):
                ctx.negative_control("MC_Core", ctx.cfg_variant("MC_Core.cfg", {nc: "TRUE", "MaxGB": 0, "MaxRows": 2}), label="neg:" + nc)
        _gen_replay(ctx, "count", mr, "TRUE" if thorough else "FALSE", 0, "FALSE", "replay-count")
        ctx.cov["exhaustive"] = True
        _traces(ctx, "small", "trace-small", runs=12 if thorough else 4)
        _traces(ctx, "boundary", "trace-boundary", sizes=[999, 1000, 1001] + ([2001, 4095, 4096, 4097] if thorough else []))
        # the first large size is built by the big writer: values held by exactly 4096 / 8192 rows, trailing rows without columns
        _traces(ctx, "large", "trace-large", sizes=[12288, 65535, 65537, 150000] if thorough else [8192])
        # the same expression objects executed again after their comparison leaves were edited, on two indexes
        _traces(ctx, "reuse", "trace-edited-leaves", runs=12 if thorough else 6, must=("Exec", "ExecQ"))
        nul_probe(ctx)
    elif pid == "C02":
        ctx.cov["rule"] = ("TLC proves nested group-by refinement = declarative GROUP BY (sorted tuples with count>0) for every dataset x group-by list; "
                           "datasets x (6 expressions x all lists of length<=2 over existing/unknown columns + 10 lists of length 3..6 with repeats) are replayed "
                           "on 3 writers x 2 modes; random lists of length 0..6 on seeded datasets via Trace_Lib.")
        c = ctx.cfg_variant("MC_Core.cfg", dict(MaxRows=3 if thorough else 2, MaxGB=2))
        ctx.design("MC_Core", c, label="AlgoEqSpec+groups")
        _gen_replay(ctx, "groups", 4 if thorough else 3, "FALSE", 2, "FALSE", "replay-groups")
        ctx.cov["exhaustive"] = True
        _traces(ctx, "small", "trace-small", runs=16 if thorough else 5)
        _traces(ctx, "boundary", "trace-boundary", sizes=[1001] + ([2001, 4097] if thorough else []))
        # the same Query objects (with group-by lists) on two indexes whose columns hold different values
        _traces(ctx, "reuse", "trace-two-indexes", runs=12 if thorough else 6, must=("ExecQ",))
    elif pid == "C05":
        ctx.cov["rule"] = ("MC_Lib explores the writer/file/handle life-cycle (ids sequential, file = FileOf(rows) for both writers, reopen stable); "
                           "datasets with a unique-per-row column are replayed with schema, ids and exact row membership per (column,value) compared, "
                           "closing and reopening once; traces cross the 1000-value / 1000-row batch boundaries with >1000 distinct values.")
        ctx.design("MC_Lib", ctx.cfg_variant("MC_Lib.cfg", dict(MaxRows=2 if thorough else 1)), label="lifecycle")
        ctx.design("MC_Core", ctx.cfg_variant("MC_Core.cfg", dict(MaxRows=3, MaxGB=0, WithUnique="TRUE")), label="WritersAgree")
        if thorough:
            ctx.negative_control("MC_Core", ctx.cfg_variant("MC_Core.cfg", {"DropLastBitmap": "TRUE", "MaxGB": 0, "MaxRows": 2}), label="neg:DropLastBitmap")
        _gen_replay(ctx, "roundtrip", 4 if thorough else 3, "FALSE", 0, "TRUE", "replay-roundtrip", reopen=True)
        ctx.cov["exhaustive"] = True
        _traces(ctx, "boundary", "trace-boundary", sizes=[999, 1000, 1001, 2001] + ([2002, 3000] if thorough else []), must=("Exec", "Schema", "AddRows"))
        # tens of thousands of rows in low-cardinality columns (bitmaps of several KiB each, blocks of exactly 4096 rows)
        _traces(ctx, "large", "trace-large", sizes=[8192, 30000] + ([8193, 12288, 70000] if thorough else []), must=("Exec", "AddRows"))
        _traces(ctx, "small", "trace-small", runs=10 if thorough else 4)
        # histories: Flush ok, open / close, a refused Flush onto the same path (same or another writer), open again
        _traces(ctx, "clobber", "trace-refused-flush", runs=10 if thorough else 5, must=("Flush", "Plant", "Exec"))
    elif pid == "C08":
        ctx.cov["rule"] = ("MC_Lib: caller-held Query objects executed repeatedly on two indexes, answers = ExecSpec and visible fields unchanged "
                           "(negative control: scratch kept in the object); TLC-generated execution sequences are replayed with real *updog.Query "
                           "values; random re-use histories are validated by Trace_Lib.")
        ctx.design("MC_Lib", ctx.cfg_variant("MC_Lib.cfg", dict(MaxRows=2 if thorough else 1, MaxExecs=3)), label="reuse")
        ctx.negative_control("MC_Lib", ctx.cfg_variant("MC_Lib.cfg", dict(KeepGroupByScratch="TRUE", MaxRows=1)), label="neg:KeepGroupByScratch")
        _reuse_replay(ctx, thorough)
        _traces(ctx, "reuse", "trace-reuse", runs=60 if thorough else 15, must=("ExecQ", "NewQuery"))
    else:
        raise Broken("fam_lib does not handle " + pid)


def _reuse_replay(ctx, thorough):
    cfg = ctx.cfg_variant("Gen_Reuse.cfg", dict(MaxSteps=5 if thorough else 4))
    path = os.path.join(ctx.work, "gen_reuse.ndjson")
    r = ctx.gen_to_file("Gen_Reuse", cfg, path, workers=8, label="gen-reuse")
    if r["emitted"] < 2:
        raise Broken("Gen_Reuse emitted nothing")
    ctx.run_replay("replay-reuse", ["-in", path, "-seed", str(ctx.seed)], "replay-reuse")
    ctx.cov["exhaustive"] = True
    os.remove(path)


def nul_probe(ctx):
    """C01 caveat: column names containing NUL make the byte-level key col.NUL.val ambiguous.
    Design-level: MC_Keys shows the byte-level key is not injective once NUL may occur in a column
    name; the concrete witness is replayed on the real code (known finding)."""
    rc, out, err = ctx.drive(["probe-nul"], env_extra={"VERIF_WORK": ctx.work})
    if rc != 0:
        raise Broken("probe-nul failed: " + err[-1000:])
    rep = json.loads(out.strip().splitlines()[-1])
    for m in rep.get("mismatches", []):
        ctx.violation({"check": "nul-column", "input": m.get("input")}, m,
                      "column name containing NUL: " + json.dumps(m)[:500])


def replay(ctx, path):
    """Re-run one saved replay file (a mismatch of replay-lib or a rejected trace slice)."""
    ctx.build_harness()
    obj = json.load(open(path))
    rp = obj["replay"]
    if "trace_slice" in rp:
        tr = os.path.join(ctx.work, "slice.ndjson")
        open(tr, "w").write("\n".join(rp["trace_slice"]) + "\n")
        ctx.check_trace(rp["module"], rp["cfg"], tr, "replay-slice")
    else:
        log(json.dumps(rp, indent=1)[:4000])
        raise Broken("replay of individual replay-lib mismatches: re-run the check with the same VERIF_SEED")
