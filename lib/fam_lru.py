"""C07: LRU cache. Spec UpdogLRU (exact, code-shaped operators + the tolerant relation C07 states);
MC_LRU proves exact refines tolerant; Gen_LRU enumerates all Put/Get sequences -> replay-lru;
random long histories -> Trace_LRU (branching, high-water acceptance)."""
import json, os
from vlib import Broken, log

CONTROLS = ["NoReaccountOnOverwrite", "NoMoveToFrontOnGet", "EvictFront", "NoSubtractOnEvict"]


def run(ctx):
    thorough = ctx.tier == "thorough"
    ctx.build_harness()
    ctx.cov["rule"] = ("TLC explores every Put/Get sequence over 3 keys x 4 sizes (0 bytes .. larger than capacity) up to MaxOps on the exact model "
                       "(refinement of the tolerant relation, byte bound, last-put, well-formedness; 4 negative controls); every such sequence of exactly "
                       "MaxOps calls is replayed on the real LRUCache for capacities {0, tiny, few entries, ample} with hit flag, returned bitmap identity, "
                       "resident set after every prefix and counters compared; sequences whose outcome depends on the accounting overhead and random long "
                       "histories are validated against the tolerant relation by Trace_LRU. distinct_nontrivial = distinct call sequences + recorded histories.")
    ctx.assumptions += ["per-entry bookkeeping overhead of an implementation is any value in 0..256 bytes (OverheadMax)",
                        "bitmap identity is pointer identity of the *roaring.Bitmap passed to Put"]
    ctx.design("MC_LRU", ctx.cfg_variant("MC_LRU.cfg", dict(MaxOps=6 if thorough else 5)), label="exact refines tolerant")
    for mb in ([0, 50, 500] if thorough else [50]):
        ctx.design("MC_LRU", ctx.cfg_variant("MC_LRU.cfg", dict(MaxOps=5 if thorough else 4, MaxBytes=mb)), label="capacity %d" % mb)
    for nc in CONTROLS:
        ctx.negative_control("MC_LRU", ctx.cfg_variant("MC_LRU.cfg", {nc: "TRUE", "MaxOps": 4}), label="neg:" + nc)
    if thorough:
        # optional extra (never the basis of a verdict): the byte bound as an inductive invariant, discharged by
        # Apalache for 4 keys and symbolic capacity (0..120), overhead (0..8) and size range -- every history length
        base = ["--init=IndInit", "--length=1"]
        ctx.apalache("LRUInd", "LRUInd.cfg", ["--cinit=ConstInitOK", "--init=Init", "--inv=IndInv", "--length=0"], label="Init => IndInv")
        ctx.apalache("LRUInd", "LRUInd.cfg", ["--cinit=ConstInitOK", "--init=IndInit", "--inv=IndInv", "--length=1"], label="IndInv /\\ Next => IndInv'")
        ctx.apalache("LRUInd", "LRUInd.cfg", ["--cinit=ConstInitOK", "--init=IndInit", "--inv=SizeBound", "--length=0"], label="IndInv => SizeBound")
        ctx.apalache("LRUInd", "LRUInd.cfg", ["--cinit=ConstInitBad", "--init=IndInit", "--inv=IndInv", "--length=1"], label="negative control (no eviction on overwrite)")
    rc, out, err = ctx.drive(["lru-sizes"])
    if rc != 0:
        raise Broken("lru-sizes failed " + err)
    sz = json.loads(out)["sizes"]
    amb_trace = os.path.join(ctx.work, "lru_amb.ndjson")
    namb = 0
    open(amb_trace, "w").close()
    for mb, ops in ([(0, 4), (60, 5), (10000, 5), (1 << 20, 5)] if thorough else [(0, 3), (60, 4), (10000, 4), (1 << 20, 4)]):
        cfg = ctx.cfg_variant("MC_GenLRU.cfg", dict(SzZero=sz[0], SzSmall=sz[1], SzMed=sz[2], SzBig=sz[3], MaxBytes=mb, MaxOps=ops))
        path = os.path.join(ctx.work, "genlru.ndjson")
        r = ctx.gen_to_file("MC_GenLRU", cfg, path, workers=8, label="gen-lru max=%d" % mb)
        if r["emitted"] < 10:
            raise Broken("Gen_LRU emitted nothing")
        part = os.path.join(ctx.work, "amb_part.ndjson")
        rep = ctx.run_replay("replay-lru", ["-in", path, "-amb", part], "replay-lru")
        namb += rep.get("notes", {}).get("ambiguous", 0)
        # keep the ambiguous-trace volume bounded (each behaviour is MaxOps short runs)
        with open(part) as f, open(amb_trace, "a") as g:
            for i, line in enumerate(f):
                if i < (400000 if thorough else 60000):
                    g.write(line)
        os.remove(path)
        os.remove(part)
    ctx.cov["exhaustive"] = True
    ctx.cov["ambiguous_sequences"] = namb
    if os.path.getsize(amb_trace) > 0:
        ctx.check_trace("Trace_LRU", "Trace_LRU.cfg", amb_trace, "trace-lru-ambiguous", must_have=("Put", "Get"), deque=True, run_marker="NewCache")
    tr = os.path.join(ctx.work, "lru_rand.ndjson")
    ctx.record("record-lru", ["-seed", str(ctx.seed), "-runs", "60" if thorough else "20", "-ops", "1500" if thorough else "300"], tr)
    ctx.check_trace("Trace_LRU", "Trace_LRU.cfg", tr, "trace-lru-random", must_have=("Put", "Get", "Metrics"), deque=True, run_marker="NewCache")


def replay(ctx, path):
    ctx.build_harness()
    obj = json.load(open(path))
    rp = obj["replay"]
    if "trace_slice" in rp:
        tr = os.path.join(ctx.work, "slice.ndjson")
        open(tr, "w").write("\n".join(rp["trace_slice"]) + "\n")
        ctx.check_trace(rp["module"], rp["cfg"], tr, "replay-slice", deque=True, run_marker="NewCache")
    else:
        log(json.dumps(rp, indent=1)[:3000])
        raise Broken("re-run the check to replay enumerated sequences")
