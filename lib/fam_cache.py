"""C03: result caches are transparent, evaluation is side-effect free.
Spec: UpdogKeys (symbolic cache keys) + UpdogCache (cache-threaded evaluation over UpdogLRU)."""
import json, os
from vlib import Broken, log


def run(ctx):
    thorough = ctx.tier == "thorough"
    ctx.build_harness()
    ctx.cov["rule"] = ("MC_Cache: all sequences of <=MaxQ queries from a 13-query adversarial set over an exact LRU of 4 capacities, answers = cache-less spec "
                       "(negative control: XOR keys of the code as found). MC_Keys: equal key => equal meaning over all expressions of depth<=1 arity<=3 (depth 2 thorough); "
                       "for 7 weak key schemes every pair (expression, smallest expression of different meaning with the same weak key) is replayed in both orders on a "
                       "real cached index; all query sequences of Gen_Cache are replayed for 4 capacities x 2 modes; random histories with the real key of every "
                       "sub-expression and the content of every cache Get/Put are validated by Trace_Cache. distinct_nontrivial = pairs + sequences + recorded runs.")
    ctx.assumptions += ["no accidental 64-bit coincidence of the structural hash (the symbolic-key assumption C03 states)"]
    for cap in ([0, 30, 60, 100000] if thorough else [30, 100000]):
        ctx.design("MC_Cache", ctx.cfg_variant("MC_Cache.cfg", dict(Cap=cap, MaxQ=3)), label="transparent cap=%d" % cap)
    ctx.negative_control("MC_Cache", ctx.cfg_variant("MC_Cache.cfg", dict(XorCacheKey="TRUE")), label="neg:XorCacheKey")
    ctx.design("MC_Keys", ctx.cfg_variant("MC_Keys.cfg", dict(Deep="TRUE" if thorough else "FALSE")), label="KeySound", workers=4)
    ctx.negative_control("MC_Keys", ctx.cfg_variant("MC_Keys.cfg", dict(XorCacheKey="TRUE")), label="neg:XorCacheKey", workers=4)
    # adversarial pairs
    path = os.path.join(ctx.work, "pairs.ndjson")
    r = ctx.gen_to_file("MC_Keys", ctx.cfg_variant("MC_Keys.cfg", dict(EmitPairs="TRUE", Deep="TRUE" if thorough else "FALSE")), path, workers=2, label="gen-pairs")
    if r["emitted"] < 100:
        raise Broken("MC_Keys emitted too few pairs")
    ctx.run_replay("replay-pairs", ["-in", path, "-seed", str(ctx.seed)], "replay-pairs", sigkeys=("kind", "scheme"))
    os.remove(path)
    # sequences
    path = os.path.join(ctx.work, "cseq.ndjson")
    r = ctx.gen_to_file("Gen_Cache", ctx.cfg_variant("Gen_Cache.cfg", dict(MaxQ=3)), path, workers=4, label="gen-cacheseq")
    ctx.run_replay("replay-cacheseq", ["-in", path, "-seed", str(ctx.seed)], "replay-cacheseq", sigkeys=("kind", "capacity"))
    ctx.cov["exhaustive"] = True
    os.remove(path)
    tr = os.path.join(ctx.work, "cache.ndjson")
    ctx.record("record-cache", ["-seed", str(ctx.seed), "-runs", "24" if thorough else "6"], tr)
    ctx.check_trace("Trace_Cache", "Trace_Cache.cfg", tr, "trace-cache", must_have=("KeyOf", "CacheGet", "CachePut", "Exec"))


def replay(ctx, path):
    ctx.build_harness()
    rp = json.load(open(path))["replay"]
    if "trace_slice" in rp:
        tr = os.path.join(ctx.work, "slice.ndjson")
        open(tr, "w").write("\n".join(rp["trace_slice"]) + "\n")
        ctx.check_trace(rp["module"], rp["cfg"], tr, "replay-slice")
    else:
        log(json.dumps(rp, indent=1)[:3000])
        raise Broken("re-run the check to replay enumerated behaviours")
