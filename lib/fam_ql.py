"""C09 (parser total, accepts exactly the grammar, no goroutine left) and C10 (format o parse).
Spec: UpdogQL (byte-level lexer, parser, EBNF language, formatter, Norm), UpdogLexProc (liveness)."""
import json, os
from vlib import Broken, log

ALPHA14 = "{97, 49, 48, 32, 34, 36, 40, 41, 38, 124, 94, 61, 59, 44}"
ALPHA10 = "{97, 49, 32, 34, 36, 40, 38, 94, 61, 59}"
ALPHA_ODD = "{97, 95, 35, 255, 9, 34, 61, 36, 50, 41}"     # underscore, '#', 0xff, TAB, ... (unknown bytes, other whitespace)


def run(ctx):
    thorough = ctx.tier == "thorough"
    ctx.build_harness()
    seed = str(ctx.seed)
    if ctx.pid == "C09":
        ctx.cov["rule"] = ("MC_QL: the transcribed recursive-descent parser accepts a token string iff it is in the language generated bottom-up from the documented EBNF, "
                           "for all strings of <=MaxLen macro tokens (10 symbols) and, through the byte-level lexer, all byte strings of <=5 characters over 14 characters "
                           "(plus a second alphabet with unknown bytes); 3 negative controls (no EOF check, dropped unterminated string, wrapped placeholder). UpdogLexProc: "
                           "lexer goroutine / channel / parser terminate for every (emitted, consumed) pair (negative control: no drain). Every enumerated byte string is replayed "
                           "on the real ParseQuery (verdict, tree, panic, goroutine left behind); random sentences / mutations / arbitrary bytes are validated by Trace_QL.")
        ctx.assumptions += ["the EBNF is silent on whitespace and identifiers; the lexer's sets (SP TAB CR LF; letter (letter|digit|_)*) are taken as documented",
                            "nesting deeper than ~200 is checked for termination / no panic / no leak only (TLC recursion depth)"]
        ctx.design("MC_QL", ctx.cfg_variant("MC_QL.cfg", dict(Mode='"tokens"', MaxLen=7 if thorough else 6)), label="tokens")
        ctx.design("MC_QL", ctx.cfg_variant("MC_QL.cfg", dict(Mode='"bytes"', MaxLen=6 if thorough else 5, Alphabet=ALPHA10 if thorough else ALPHA14)), label="bytes(design)")
        ctx.negative_control("MC_QL", ctx.cfg_variant("MC_QL.cfg", dict(NoEOFCheck="TRUE", Mode='"bytes"', MaxLen=5, Alphabet="{97, 61, 34, 36, 57, 32}")), label="neg:NoEOFCheck")
        ctx.negative_control("MC_QL", ctx.cfg_variant("MC_QL.cfg", dict(DropUnterminated="TRUE", Mode='"bytes"', MaxLen=6, Alphabet="{97, 61, 34, 32}")), label="neg:DropUnterminated")
        ctx.negative_control("MC_QL", ctx.cfg_variant("MC_QL.cfg", dict(WrapPlaceholder="TRUE", Mode='"bytes"', MaxLen=13, Alphabet="{57}", Prefix="PrefixPh", LangLen=3)), label="neg:WrapPlaceholder")
        ctx.design("UpdogLexProc", "UpdogLexProc.cfg", label="lexer/parser protocol", workers=2)
        ctx.negative_control("UpdogLexProc", ctx.cfg_variant("UpdogLexProc.cfg", dict(NoDrain="TRUE")), label="neg:NoDrain", workers=2)
        for alpha, n in [(ALPHA14, 5), (ALPHA_ODD, 5 if thorough else 4)] + ([(ALPHA10, 6)] if thorough else []):
            path = os.path.join(ctx.work, "strings.ndjson")
            r = ctx.gen_to_file("MC_QL", ctx.cfg_variant("MC_QL.cfg", dict(Mode='"bytes"', MaxLen=n, Alphabet=alpha, Emit="TRUE")), path, workers=8, label="gen-strings")
            if r["emitted"] < 1000:
                raise Broken("MC_QL emitted too few strings")
            ctx.cov["states"] += r["distinct"]
            ctx.cov["transitions"] += r["generated"]
            ctx.run_replay("replay-parse", ["-in", path], "replay-parse", sigkeys=("kind",))
            os.remove(path)
        # token level: every string of <= 5 (thorough 6) macro tokens rendered as text
        path = os.path.join(ctx.work, "tokens.ndjson")
        r = ctx.gen_to_file("MC_QL", ctx.cfg_variant("MC_QL.cfg", dict(Mode='"tokens"', MaxLen=6 if thorough else 5, Emit="TRUE")), path, workers=8, label="gen-token-strings")
        if r["emitted"] < 1000:
            raise Broken("MC_QL emitted too few token strings")
        ctx.run_replay("replay-parse", ["-in", path], "replay-parse-tokens", sigkeys=("kind",))
        os.remove(path)
        ctx.cov["exhaustive"] = True
        tr = os.path.join(ctx.work, "parse.ndjson")
        ctx.record("record-parse", ["-seed", seed, "-n", "3000" if thorough else "600", "-depth", "150" if thorough else "40"], tr)
        ctx.check_trace("Trace_QL", "Trace_QL.cfg", tr, "trace-parse", must_have=("Parse", "ParseDeep"), run_marker="Parse")
    else:
        ctx.cov["rule"] = ("MC_Fmt: for every tree of the universe (3 leaves: literal, literal with quotes/space, placeholder; depth<=2 quick / 3 thorough; arity<=2) x 3 group-by "
                           "lists, Parse(Format(t)) succeeds with the same normal form and list and format/parse is a fixpoint from the second round. The same trees and random "
                           "deep/wide trees with arbitrary value bytes go through the real QueryToString/ParseQuery twice; Trace_QL validates every round trip "
                           "(text accepted by the specification's parser with the same tree, Norm equal, group-by equal, third text = second).")
        ctx.design("MC_Fmt", ctx.cfg_variant("MC_Fmt.cfg", dict(Deep="TRUE" if thorough else "FALSE")), label="roundtrip", workers=4)
        path = os.path.join(ctx.work, "trees.ndjson")
        r = ctx.gen_to_file("MC_Fmt", ctx.cfg_variant("MC_Fmt.cfg", dict(Deep="TRUE" if thorough else "FALSE", Emit="TRUE")), path, workers=2, label="gen-trees")
        if r["emitted"] < 50:
            raise Broken("MC_Fmt emitted too few trees")
        ctx.cov["replayed_behaviours"] += r["emitted"]
        tr = os.path.join(ctx.work, "rt.ndjson")
        ctx.record("record-roundtrip", ["-seed", seed, "-in", path, "-n", "1500" if thorough else "300"], tr)
        ctx.cov["exhaustive"] = True
        ctx.check_trace("Trace_QL", "Trace_QL.cfg", tr, "trace-roundtrip", must_have=("RoundTrip",), run_marker="RoundTrip")


def replay(ctx, path):
    ctx.build_harness()
    rp = json.load(open(path))["replay"]
    if "trace_slice" in rp:
        tr = os.path.join(ctx.work, "slice.ndjson")
        open(tr, "w").write("\n".join(rp["trace_slice"][-1:]) + "\n")
        ctx.check_trace(rp["module"], rp["cfg"], tr, "replay-slice", run_marker="Parse")
    else:
        log(json.dumps(rp, indent=1)[:3000])
        raise Broken("re-run the check to replay enumerated strings")
