"""C04 (concurrent queries / concurrent LRU use) and C18 (concurrent AddRow).
Specs: UpdogConc (threads as stack machines over the shared LRU, lock as atomicity), UpdogConcWrite,
Trace_CS (lock automaton over hook events), Trace_LRUConc (linearisation search), Trace_Lib."""
import json, os, re
from vlib import Broken, log

RACE_ENV = {"GORACE": "halt_on_error=1 exitcode=66"}


def _race_record(ctx, race_bin, subcmd, args, trace):
    """Run a recorder of the -race build; a race report (exit 66) becomes a Race event at the end
    of the trace, which no specification action matches."""
    ee = {"VERIF_WORK": ctx.work}
    ee.update(RACE_ENV)
    rc, out, err = ctx.drive([subcmd, "-out", trace] + args, binary=race_bin, env_extra=ee, timeout=1800)
    if rc != 0 and os.path.exists(trace):
        # the recorder was stopped in the middle of its work (race detector, panic): keep the complete events only
        good = []
        for line in open(trace, "rb").read().split(b"\n"):
            if not line.strip():
                continue
            try:
                json.loads(line)
            except Exception:
                break
            good.append(line)
        with open(trace, "wb") as f:
            f.write(b"".join(l + b"\n" for l in good))
    if rc == 66 or "WARNING: DATA RACE" in err:
        rep = err[err.find("WARNING: DATA RACE"):][:3000]
        with open(trace, "a") as f:
            f.write(json.dumps({"ev": "Race", "report": rep}) + "\n")
    elif rc != 0:
        if "panic:" in err or "fatal error:" in err:
            with open(trace, "a") as f:
                f.write(json.dumps({"ev": "Panic", "report": err[-3000:]}) + "\n")
        else:
            raise Broken("vdrive %s failed rc=%d: %s" % (subcmd, rc, err[-2000:]))
    n = sum(1 for _ in open(trace))
    if n == 0:
        raise Broken("empty trace from " + subcmd)
    ctx.cov["trace_events"] += n


def run(ctx):
    thorough = ctx.tier == "thorough"
    ctx.build_harness()
    race = ctx.build_harness(race=True)
    seed = str(ctx.seed)
    if ctx.pid == "C04":
        ctx.cov["rule"] = ("UpdogConc: 3-4 threads evaluating overlapping queries as stack machines over one shared exact LRU, all interleavings of cache calls, "
                           "capacities {0, tiny, ample}: sequential answers, cache well-formed, counters exact (negative control: split Get/Put). TLC-simulated "
                           "schedules are replayed with every goroutine gated before each cache call (answers and, for capacity 0/ample, hit/miss counters compared). "
                           "Stress under the Go race detector (2..16 goroutines x cache x mode) validated by Trace_Lib; hook-based critical-section probes validated by "
                           "Trace_CS; direct concurrent Get/Put linearised by TLC against the tolerant LRU relation (Trace_LRUConc).")
        ctx.assumptions += ["data races on memory the hooks do not bracket (roaring, bbolt internals) are observed through the Go race detector as instrument",
                            "the critical-section probe can only miss a violation on a slow machine, never report one"]
        for cap in [0, 60, 100000]:
            ctx.design("MC_Conc", ctx.cfg_variant("MC_Conc.cfg", dict(Cap=cap, Threads="{1, 2, 3, 4}" if (thorough and cap != 100000) else "{1, 2, 3}")), label="cap=%d" % cap)
        ctx.negative_control("MC_Conc", ctx.cfg_variant("MC_Conc.cfg", dict(NoLruMutex="TRUE", Threads="{1, 2}")), label="neg:NoLruMutex")
        for cap, real in [(0, 0), (100000, 1 << 22)]:
            path = os.path.join(ctx.work, "sched.ndjson")
            r = ctx.gen_to_file("Gen_Conc", ctx.cfg_variant("Gen_Conc.cfg", dict(Cap=cap)), path, workers=1,
                                simulate="num=%d" % (4000 if thorough else 300), depth=80, extra=["-seed", seed], label="gen-sched cap=%d" % cap)
            if r["emitted"] < 10:
                raise Broken("Gen_Conc emitted no schedules")
            rep = ctx.run_replay("replay-sched", ["-in", path, "-seed", seed, "-cap", str(real)], "replay-sched", sigkeys=("kind",))
            ctx.cov["sched_structure_differs"] = ctx.cov.get("sched_structure_differs", 0) + rep.get("notes", {}).get("structure_differs", 0)
            os.remove(path)
        tr = os.path.join(ctx.work, "cs.ndjson")
        ctx.record("record-cs", ["-rounds", "6" if thorough else "3"], tr)
        ctx.check_trace("Trace_CS", "Trace_CS.cfg", tr, "trace-cs", must_have=("CS", "Rel"), run_marker="Round")
        tr = os.path.join(ctx.work, "concexec.ndjson")
        _race_record(ctx, race, "record-conc-exec", ["-seed", seed, "-runs", "36" if thorough else "6", "-per", "80" if thorough else "25"], tr)
        ctx.check_trace("Trace_Lib", "Trace_Lib.cfg", tr, "trace-conc-exec(race build)", must_have=("Exec",))
        # (d) the same through the gRPC service: 16 concurrent clients against a race-built server, default cache
        updog_race = ctx.build_updog(race=True)
        tr = os.path.join(ctx.work, "rpcconc.ndjson")
        ctx.record("record-rpc-conc", ["-seed", seed, "-updog", updog_race, "-per", "80" if thorough else "25"], tr, timeout=1800)
        ctx.check_trace("Trace_Lib", "Trace_Lib.cfg", tr, "trace-rpc-conc(race-built server)", must_have=("Exec",))
        tr = os.path.join(ctx.work, "lruconc.ndjson")
        _race_record(ctx, race, "record-lru-conc", ["-seed", seed, "-runs", "60" if thorough else "6", "-rounds", "50" if thorough else "20"], tr)
        ctx.check_trace("Trace_LRUConc", "Trace_LRUConc.cfg", tr, "trace-lru-linearisable(race build)", must_have=("Call", "Ret"), deque=True, run_marker="NewCache")
    else:
        ctx.cov["rule"] = ("UpdogConcWrite: 3 threads adding 5 tagged rows, AddRow atomic under the writer mutex: ids are a permutation of 0..n-1 and the bitmaps equal "
                           "the sequential insertion in id order (negative controls: no mutex, increment outside the lock). Critical-section probes inside both AddRow "
                           "bodies (Trace_CS); stress with 2..32 goroutines under the race detector, totals on both sides of 1000, validated by Trace_Lib "
                           "(ConcAddRows: returned ids exactly the next n ids; per-tag probes on the flushed index).")
        ctx.assumptions += ["the critical-section probe can only miss a violation on a slow machine, never report one"]
        ctx.design("MC_ConcWrite", "MC_ConcWrite.cfg", label="atomic AddRow")
        ctx.negative_control("MC_ConcWrite", ctx.cfg_variant("MC_ConcWrite.cfg", dict(NoWriterMutex="TRUE")), label="neg:NoWriterMutex")
        ctx.negative_control("MC_ConcWrite", ctx.cfg_variant("MC_ConcWrite.cfg", dict(IncrementOutsideLock="TRUE")), label="neg:IncrementOutsideLock")
        tr = os.path.join(ctx.work, "cs.ndjson")
        ctx.record("record-cs", ["-rounds", "8" if thorough else "4"], tr)
        ctx.check_trace("Trace_CS", "Trace_CS.cfg", tr, "trace-cs", must_have=("CS", "Rel"), run_marker="Round")
        tr = os.path.join(ctx.work, "concwrite.ndjson")
        _race_record(ctx, race, "record-conc-write", ["-seed", seed, "-totals", "7,40,999,1000,1001,2003,3500" if thorough else "40,1001,2500"], tr)
        ctx.check_trace("Trace_Lib", "Trace_Lib.cfg", tr, "trace-conc-write(race build)", must_have=("ConcAddRows", "Exec"))


def replay(ctx, path):
    ctx.build_harness()
    rp = json.load(open(path))["replay"]
    if "trace_slice" in rp:
        tr = os.path.join(ctx.work, "slice.ndjson")
        open(tr, "w").write("\n".join(rp["trace_slice"]) + "\n")
        ctx.check_trace(rp["module"], rp["cfg"], tr, "replay-slice", deque=True)
    else:
        log(json.dumps(rp, indent=1)[:3000])
        raise Broken("re-run the check to replay schedules")
