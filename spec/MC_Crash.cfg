SPECIFICATION Spec
CONSTANTS
  Configs <- ConfigsDef
  HeaderFirst = FALSE
INVARIANTS CrashSafe OccupiedUntouched
CHECK_DEADLOCK FALSE
