SPECIFICATION Spec
CONSTANTS
  Configs <- ConfigsDef
  HeaderFirst = FALSE
INVARIANT CrashSafe
CHECK_DEADLOCK FALSE
