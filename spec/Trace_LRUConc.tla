------------------------------ MODULE Trace_LRUConc ------------------------------
(* Linearisability of the real LRU cache under concurrent use (C04): call/ret intervals   *)
(* are recorded; TLC searches, with silent Lin steps between the logged events, for an    *)
(* order of the pending calls that the tolerant LRU relation explains.                    *)
EXTENDS UpdogLRU, TraceBase
VARIABLES t,      \* black-box cache state
          pend    \* pend[thread] = [st : "idle" | "called" | "lined", op, k, size, bm, hit, rbm]
tvars == <<t, pend, l>>
Thr == 1..8
Idle == [st |-> "idle", op |-> "", k |-> 0, size |-> 0, bm |-> 0, hit |-> FALSE, rbm |-> 0]
TInit == TraceBaseInit /\ t = NewTol(0) /\ pend = [x \in Thr |-> Idle]
TNew == IsEvent("NewCache") /\ t' = NewTol(Ev.max) /\ pend' = [x \in Thr |-> Idle]
TCall == /\ IsEvent("Call") /\ pend[Ev.t].st = "idle"
         /\ pend' = [pend EXCEPT ![Ev.t] = [st |-> "called", op |-> Ev.op, k |-> Ev.k, size |-> Ev.size, bm |-> Ev.bm, hit |-> FALSE, rbm |-> 0]]
         /\ UNCHANGED t
\* silent: the pending call of thread x takes effect now
Lin(x) == /\ pend[x].st = "called" /\ UNCHANGED l
          /\ IF pend[x].op = "put"
             THEN /\ t' \in TolPutSet(t, pend[x].k, pend[x].bm, pend[x].size)
                  /\ pend' = [pend EXCEPT ![x].st = "lined"]
             ELSE LET g == TolGetRes(t, pend[x].k) IN
                  /\ t' = g.t
                  /\ pend' = [pend EXCEPT ![x] = [@ EXCEPT !.st = "lined", !.hit = g.hit, !.rbm = g.bm]]
TRet == /\ IsEvent("Ret") /\ pend[Ev.t].st = "lined"
        /\ pend[Ev.t].op = "get" => (Ev.hit = pend[Ev.t].hit /\ (Ev.hit => Ev.bm = pend[Ev.t].rbm))
        /\ pend' = [pend EXCEPT ![Ev.t] = Idle] /\ UNCHANGED t
TNext == TNew \/ TCall \/ TRet \/ \E x \in Thr : Lin(x)
TSpec == TInit /\ [][TNext]_tvars
=============================================================================
