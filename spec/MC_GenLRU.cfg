SPECIFICATION Spec
CONSTANTS
  Keys = {1, 2, 3}
  SizeOf <- SizeOfDef
  SzZero = 8
  SzSmall = 90
  SzMed = 4010
  SzBig = 12000
  MaxBytes = 10000
  MaxOps = 4
  OverheadMax = 256
  NoReaccountOnOverwrite = FALSE
  NoMoveToFrontOnGet = FALSE
  EvictFront = FALSE
  NoSubtractOnEvict = FALSE
INVARIANT Emit
CHECK_DEADLOCK FALSE
