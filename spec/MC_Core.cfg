SPECIFICATION Spec
CONSTANTS
  MaxRows = 3
  DCols = {1, 2}
  DVals = {1, 2}
  QCols = {1, 2, 3}
  QVals = {1, 2, 3}
  MaxGB = 2
  Depth2 = FALSE
  DropLastBitmap = FALSE
  NotOffByOne = FALSE
  WithUnique = FALSE
INVARIANTS AlgoEqSpec WritersAgree CheckFormAgrees
CHECK_DEADLOCK FALSE
