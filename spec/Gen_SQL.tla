------------------------------ MODULE Gen_SQL ------------------------------
(* C17, sequential histories: one caller thread; every history of MaxSteps calls over      *)
(* {sql.Open(d, key), Query(d), DB.Close(d), re-use of a closed handle variable} with the   *)
(* outcome of each call and the files whose lock must be free after it.                     *)
EXTENDS MC_SQL, Json
VARIABLE hist
gvars == <<cvars, hist>>
FreeFiles == {f \in Files : flock'[f] = "free"}
Rec(op, d) == hist' = Append(hist, [op |-> op, d |-> d, f |-> dbh'[d].key.f, o |-> dbh'[d].key.o, out |-> IF op = "query" THEN out' ELSE "ok",
                                     free |-> SetToSeq(FreeFiles)])
GInit == CInit /\ hist = <<>>
GNext == out # "hang" /\ \E d \in Handles :
           \/ (\E k \in Keys : SqlOpen(d, k)) /\ Rec("open", d)
           \/ DBClose(d) /\ Rec("close", d)
           \/ Reuse(d) /\ Rec("reuse", d)
           \/ QuerySeq(d) /\ Rec("query", d)
GSpec == GInit /\ [][GNext]_gvars
EmitHist == (steps = MaxSteps \/ Len(hist) >= MaxSteps) => PrintT(ToJson([tag |-> "hist", steps |-> hist]))
=============================================================================
