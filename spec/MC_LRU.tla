------------------------------ MODULE MC_LRU ------------------------------
(* Exhaustive exploration of the LRU cache for a small key / size alphabet: every Put/Get *)
(* sequence up to MaxOps.  Checks that the exact (code-shaped) cache satisfies what C07   *)
(* states: every step is an allowed step of the tolerant relation, hits return the last   *)
(* bitmap stored under the key, the byte bound holds after every Put.                     *)
EXTENDS UpdogLRU

CONSTANTS Keys, Sizes, MaxBytes, Ovh, MaxOps

VARIABLES c,       \* the cache
          stored,  \* stored[k]: bitmap most recently put under k (0: never)
          nops, nextbm,
          last     \* the call that produced this state: [op, k, s]
vars == <<c, stored, nops, nextbm, last>>

Init == c = NewLRU(MaxBytes, Ovh) /\ stored = [k \in Keys |-> 0] /\ nops = 0 /\ nextbm = 1 /\ last = [op |-> "init", k |-> 0, s |-> 0]
Put(k, s) == /\ nops < MaxOps
             /\ c' = LruPut(c, k, nextbm, s)
             /\ stored' = [stored EXCEPT ![k] = nextbm]
             /\ nextbm' = nextbm + 1 /\ nops' = nops + 1 /\ last' = [op |-> "put", k |-> k, s |-> s]
Get(k) == /\ nops < MaxOps
          /\ c' = LruGet(c, k).c
          /\ UNCHANGED <<stored, nextbm>> /\ nops' = nops + 1 /\ last' = [op |-> "get", k |-> k, s |-> 0]
Next == \E k \in Keys : Get(k) \/ \E s \in Sizes : Put(k, s)
Spec == Init /\ [][Next]_vars

WellFormed == LruWellFormed(c)
Bound == SizeBound(c)
HitReturnsLastPut == \A k \in Resident(c) : c.ent[k].bm = stored[k]
\* refinement: every exact step is a step the property allows
StepAllowed == [][\/ last'.op = "put" /\ TolPut(c, last'.k, nextbm, last'.s, c')
                  \/ last'.op = "get" /\ TolGet(c, last'.k, LruGet(c, last'.k))]_vars
\* a bitmap that fits is retrievable right after it was stored
FitsIsRetrievable == (last.op = "put" /\ last.s + OverheadMax <= MaxBytes) => last.k \in Resident(c)
=============================================================================
