SPECIFICATION TSpec
CONSTANTS
  Paths = {1, 2}
  DropLastBitmap = FALSE
  KeepGroupByScratch = FALSE
  ClobberOnFlush = FALSE
  BigByFold = FALSE
CONSTRAINT HighWater
POSTCONDITION Accepted
CHECK_DEADLOCK FALSE
