------------------------------ MODULE MC_Cache ------------------------------
(* C03 at design level: for every sequence of <= MaxQ queries from an adversarial query   *)
(* set, executed against one index with an LRU cache of capacity Cap, every answer is the *)
(* cache-less declarative one; cached bitmaps are never altered (they are values).        *)
(* KeySound: equal keys imply equal meaning, over all expressions of the universe.        *)
EXTENDS UpdogCache

CONSTANTS Cap, Ovh, MaxQ

Rows == <<(1 :> 1 @@ 2 :> 1), (1 :> 1 @@ 2 :> 2), (1 :> 2 @@ 2 :> 1), (1 :> 2), (2 :> 2), <<>>, (1 :> 3 @@ 2 :> 1)>>
F == FileOf(Rows)
EQ(c, v) == [op |-> "eq", col |-> c, val |-> v]
NOTe(x) == [op |-> "not", e |-> x]
AND(s) == [op |-> "and", es |-> s]
OR(s) == [op |-> "or", es |-> s]
A == EQ(1, 1)  B == EQ(2, 1)  C == EQ(1, 2)
\* queries that a weak key scheme confuses (duplicate operands, re-association, NOT pairs, shared sub-trees)
QSet == { AND(<<A, A, B>>), AND(<<B>>), B, AND(<<OR(<<A, C>>), OR(<<B, C>>)>>), AND(<<NOTe(A), NOTe(B)>>),
          OR(<<A, B>>), AND(<<A, B>>), NOTe(OR(<<A, B>>)), OR(<<NOTe(A), B>>), AND(<<A, OR(<<B, C>>)>>), OR(<<AND(<<A, B>>), C>>),
          EQ(3, 1), AND(<<A, EQ(3, 1)>>) }

\* group-by lists: post-processing of the (possibly cached / preloaded) result bitmap must not alter it either
GBList == <<<<>>, <<1, 2>>, <<2, 1>>, <<2>>, <<1, 1>>>>
VARIABLES c, resp, nq
vars == <<c, resp, nq>>
Init == c = NewLRU(Cap, Ovh) /\ resp = [e |-> A, gb |-> <<>>, res |-> ExecSpec(Rows, A, <<>>)] /\ nq = 0
Next == /\ nq < MaxQ
        /\ \E e \in QSet, g \in DOMAIN GBList : LET x == ExecC(F, e, GBList[g], c) IN
             c' = x.c /\ resp' = [e |-> e, gb |-> GBList[g], res |-> x.res] /\ nq' = nq + 1
Spec == Init /\ [][Next]_vars

Transparent == resp.res = ExecSpec(Rows, resp.e, resp.gb)
CacheWF == LruWellFormed(c) /\ SizeBound(c)
\* every cached bitmap is the meaning of every expression that has its key
CachedAreMeanings == \A k \in Resident(c) : \A e \in QSet : Key(e) = k => c.ent[k].bm = SatSet(Rows, e)
=============================================================================
