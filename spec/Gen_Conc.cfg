SPECIFICATION SSpec
CONSTANTS
  Threads = {1, 2, 3}
  QueryOf <- QueryOfDef
  Rows <- RowsDef
  Cap = 60
  Ovh = 10
  NoLruMutex = FALSE
  XorCacheKey = FALSE
  OverheadMax = 256
  NoReaccountOnOverwrite = FALSE
  NoMoveToFrontOnGet = FALSE
  EvictFront = FALSE
  NoSubtractOnEvict = FALSE
INVARIANTS SeqAnswer EmitSetup EmitSched
CHECK_DEADLOCK FALSE
