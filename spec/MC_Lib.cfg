SPECIFICATION MCSpec
CONSTANTS
  Paths = {1, 2}
  MaxRows = 2
  MaxQ = 1
  MaxExecs = 3
  DCols = {1, 2}
  DVals = {1, 2}
  Kinds = {"mem", "big"}
  Modes = {"ondemand"}
  DropLastBitmap = FALSE
  KeepGroupByScratch = FALSE
  ClobberOnFlush = FALSE
  BigByFold = TRUE
INVARIANTS AnswersCorrect SchemaCorrect RoundTrip WritersAgreeLib
PROPERTIES QueryObjectsStable ReadOnlyOps NoClobber
CHECK_DEADLOCK FALSE
