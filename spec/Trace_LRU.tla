------------------------------ MODULE Trace_LRU ------------------------------
(* Trace validation of the real LRU cache against what C07 states (tolerant relation):    *)
(* the resident set is not logged, TLC keeps every resident set the relation allows and   *)
(* later Get outcomes prune them (branching trace spec; acceptance by high-water mark).   *)
EXTENDS UpdogLRU, TraceBase

VARIABLE t          \* black-box cache state (see Proj)
tvars == <<t, l>>

TInit == TraceBaseInit /\ t = NewTol(0)
TNew == IsEvent("NewCache") /\ t' = NewTol(Ev.max)
TReset == IsEvent("Reset") /\ t' = NewTol(0)
TPut == IsEvent("Put") /\ t' \in TolPutSet(t, Ev.k, Ev.bm, Ev.size)
TGet == /\ IsEvent("Get")
        /\ LET g == TolGetRes(t, Ev.k) IN
           /\ Ev.hit = g.hit
           /\ g.hit => Ev.bm = g.bm                \* exactly the bitmap most recently stored under that key
           /\ t' = g.t
TMetrics == IsEvent("Metrics") /\ Ev.get = t.ctr.get /\ Ev.put = t.ctr.put /\ Ev.hit = t.ctr.hit /\ Ev.miss = t.ctr.miss /\ UNCHANGED t
TNext == TNew \/ TReset \/ TPut \/ TGet \/ TMetrics
TSpec == TInit /\ [][TNext]_tvars
=============================================================================
