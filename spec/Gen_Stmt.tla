------------------------------ MODULE Gen_Stmt ------------------------------
(* C11: statements.  MC part: a prepared statement's template never changes, whatever is  *)
(* executed; Bind replaces exactly the placeholders.  Gen part: for a fixed dataset, every *)
(* template of the universe with, per argument list of length 0..MaxArgs over 3 values,    *)
(* the set of outcomes the property allows (error when too few arguments; the literal      *)
(* query's result; with too many arguments either the result or an error).                 *)
EXTENDS UpdogStmt, Json

CONSTANTS MaxArgs, Emit
Rows == <<(2 :> 1 @@ 3 :> 1), (2 :> 1 @@ 3 :> 2), (2 :> 2 @@ 3 :> 1), (2 :> 3), (3 :> 2), <<>>, (2 :> 2 @@ 3 :> 2)>>
EQ(c, v) == [op |-> "eq", col |-> c, val |-> v]
PH(c, n) == [op |-> "ph", col |-> c, ph |-> n]
NOTe(x) == [op |-> "not", e |-> x]
Tmpls == << [t |-> PH(2, 1), gb |-> <<>>],
            [t |-> [op |-> "and", es |-> <<PH(2, 1), PH(3, 2)>>], gb |-> <<>>],
            [t |-> [op |-> "or", es |-> <<PH(2, 2), PH(3, 1)>>], gb |-> <<3>>],                     \* out of order
            [t |-> [op |-> "and", es |-> <<PH(2, 1), NOTe(PH(3, 1))>>], gb |-> <<>>],                \* repeated
            [t |-> [op |-> "or", es |-> <<PH(2, 3), EQ(3, 1)>>], gb |-> <<2>>],                      \* gap: $1 $2 unused
            [t |-> [op |-> "and", es |-> <<EQ(2, 1), NOTe(EQ(3, 2))>>], gb |-> <<>>],                \* no placeholder
            [t |-> NOTe([op |-> "or", es |-> <<PH(2, 1), PH(2, 2), PH(3, 3)>>]), gb |-> <<2, 3>>],
            [t |-> [op |-> "or", es |-> <<[op |-> "and", es |-> <<PH(2, 2), EQ(3, 2)>>], PH(2, 2)>>], gb |-> <<>>],
            [t |-> PH(1, 1), gb |-> <<>>],
            [t |-> [op |-> "and", es |-> <<PH(2, 10), NOTe(PH(3, 9))>>], gb |-> <<>>] >>                 \* two-digit numbers                                                          \* unknown column
LongArgs == {<<1, 2, 3, 4, 1, 2, 3, 4, 2, 1>>, <<4, 3, 2, 1, 4, 3, 2, 1, 1, 2>>, <<1, 1, 1, 1, 1, 1, 1, 1, 3>>, <<2, 2, 2, 2, 2, 2, 2, 1, 2, 2, 4>>, <<3, 3, 3, 3, 3, 3, 3, 2, 1, 3>>}
ArgLists == UNION {[1..k -> {1, 2, 3, 4}] : k \in 0..MaxArgs} \cup LongArgs

\* the statement state machine
VARIABLES stmt, last
gvars == <<stmt, last>>
Init == stmt = [i \in DOMAIN Tmpls |-> Tmpls[i]] /\ last = ErrRes
StmtQuery(i, args) == /\ last' \in StmtOutcomes(Rows, stmt[i].t, stmt[i].gb, args)
                      /\ UNCHANGED stmt                       \* binding works on a copy
Next == \E i \in DOMAIN Tmpls : \E a \in ArgLists : StmtQuery(i, a)
Spec == Init /\ [][Next]_gvars
TemplatesImmutable == [][stmt' = stmt]_gvars
BindExact == \A i \in DOMAIN Tmpls : \A a \in ArgLists : Len(a) >= MaxPh(Tmpls[i].t) => MaxPh(BindR(Tmpls[i].t, a)) = 0
DSNs == [scheme : {"file", "other"}, preload : {"absent", "true", "false", "junk"}, lrucache : {"absent", "true", "false", "junk"},
         size : {"absent", "zero", "num", "junk", "neg"}]
EmitDSN == (Emit /\ last = ErrRes) =>
   \A d \in DSNs : PrintT(ToJson([tag |-> "dsn", dsn |-> d, outcome |-> DSNOutcome(d)]))
PairLT(a, b) == a[1] < b[1]
RowPairs(r) == SetToSortSeq({<<c, r[c]>> : c \in DOMAIN r}, PairLT)
EmitAll == (Emit /\ last = ErrRes) =>
   /\ PrintT(ToJson([tag |-> "setup", rows |-> [i \in DOMAIN Rows |-> RowPairs(Rows[i])]]))
   /\ \A i \in DOMAIN Tmpls :
        LET al == SetToSeq(ArgLists) IN
        PrintT(ToJson([tag |-> "tmpl", tmpl |-> Tmpls[i].t, gb |-> Tmpls[i].gb,
                       cases |-> [j \in DOMAIN al |-> [args |-> al[j], outs |-> SetToSeq(StmtOutcomes(Rows, Tmpls[i].t, Tmpls[i].gb, al[j]))]]]))
=============================================================================
