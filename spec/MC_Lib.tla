------------------------------ MODULE MC_Lib ------------------------------
(* Bounded exhaustive exploration of the library state machine (life-cycle properties:    *)
(* C05 round trip / writers agree, C08 query re-use, C16 no clobbering / read-only).      *)
EXTENDS UpdogLib

CONSTANTS MaxRows, MaxQ, DCols, DVals, Kinds, Modes, MaxExecs

RowShapes == UNION {[S -> DVals] : S \in SUBSET DCols}
EQ(c, v) == [op |-> "eq", col |-> c, val |-> v]
Q == {[e |-> EQ(1, 1), gb |-> <<>>], [e |-> EQ(1, 1), gb |-> <<1>>],
      [e |-> [op |-> "not", e |-> EQ(2, 1)], gb |-> <<2, 1>>],
      [e |-> [op |-> "or", es |-> <<EQ(1, 2), EQ(2, 1)>>], gb |-> <<1>>],
      [e |-> EQ(1, 1), gb |-> <<3>>]}

VARIABLE execs          \* bounds the number of Exec steps per behaviour
mcvars == <<vars, execs>>

MCInit == Init /\ execs = 0
MCNext ==
  \/ /\ UNCHANGED execs
     /\ \E p \in Paths :
         \/ \E k \in Kinds : NewWriter(p, k)
         \/ \E r \in RowShapes : Len(w[p].rows) < MaxRows /\ AddRow(p, r)
         \/ Flush(p)
         \/ \E m \in Modes : Open(p, m)
         \/ ix[p].open /\ Close(p)
         \/ GetSchema(p)
         \/ PlantOther(p)
  \/ /\ UNCHANGED execs
     /\ \E q \in Q : Len(qobj) < MaxQ /\ NewQuery(q.e, q.gb)
  \/ /\ execs < MaxExecs /\ execs' = execs + 1
     /\ \E p \in Paths : \E i \in DOMAIN qobj : Exec(p, i)
MCSpec == MCInit /\ [][MCNext]_mcvars
=============================================================================
