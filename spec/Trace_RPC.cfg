SPECIFICATION TSpec
CONSTANTS
  NoNilCheck = FALSE
CONSTRAINT HighWater
POSTCONDITION Accepted
CHECK_DEADLOCK FALSE
