------------------------------ MODULE UpdogCache ------------------------------
(***************************************************************************)
(* Cache-threaded evaluation exactly as query.go does it: at every node    *)
(* Get before evaluating, Put after; the LRU cache value is threaded       *)
(* through the recursion (children left to right).  Key is the cache-key   *)
(* scheme under study.                                                     *)
(***************************************************************************)
EXTENDS UpdogKeys, UpdogLRU

CONSTANT XorCacheKey      \* TRUE: XOR keys of the code as found (negative control); FALSE: structural keys

Key(e) == IF XorCacheKey THEN KeyXor(e) ELSE KeyStruct(e)
SizeOfBM(bm) == 10 + 2 * Cardinality(bm)          \* array-container estimate of GetSizeInBytes

RECURSIVE EvalC(_, _, _)
\* fold children left to right, stop at the first error (the code returns immediately)
RECURSIVE EvalSeq(_, _, _, _, _)
EvalSeq(f, es, i, c, acc) ==
  IF i > Len(es) THEN [ok |-> TRUE, bms |-> acc, c |-> c]
  ELSE LET x == EvalC(f, es[i], c) IN
       IF ~x.ok THEN [ok |-> FALSE, bms |-> <<>>, c |-> x.c]
       ELSE EvalSeq(f, es, i + 1, x.c, Append(acc, x.bm))
EvalC(f, e, c) ==
  IF e.op = "eq" /\ e.col \notin DOMAIN f.schema THEN [ok |-> FALSE, bm |-> {}, c |-> c]   \* schema check precedes the cache
  ELSE LET g == LruGet(c, Key(e)) IN
       IF g.hit THEN [ok |-> TRUE, bm |-> g.bm, c |-> g.c]
       ELSE CASE e.op = "eq"  -> LET bm == Fetch(f, e.col, e.val) IN
                                 [ok |-> TRUE, bm |-> bm, c |-> LruPut(g.c, Key(e), bm, SizeOfBM(bm))]
              [] e.op = "not" -> LET x == EvalC(f, e.e, g.c) IN
                                 IF ~x.ok THEN x
                                 ELSE LET bm == (1..f.n) \ x.bm IN
                                      [ok |-> TRUE, bm |-> bm, c |-> LruPut(x.c, Key(e), bm, SizeOfBM(bm))]
              [] OTHER        -> LET xs == EvalSeq(f, e.es, 1, g.c, <<>>) IN
                                 IF ~xs.ok THEN [ok |-> FALSE, bm |-> {}, c |-> xs.c]
                                 ELSE LET bm == IF e.op = "and"
                                                THEN {p \in xs.bms[1] : \A i \in DOMAIN xs.bms : p \in xs.bms[i]}
                                                ELSE UNION {xs.bms[i] : i \in DOMAIN xs.bms}
                                      IN [ok |-> TRUE, bm |-> bm, c |-> LruPut(xs.c, Key(e), bm, SizeOfBM(bm))]

\* Execute with a cache: [res, c]
ExecC(f, e, gb, c) ==
  IF ~(Range(gb) \subseteq DOMAIN f.schema) THEN [res |-> ErrRes, c |-> c]
  ELSE LET x == EvalC(f, e, c) IN
       [res |-> IF x.ok THEN OkRes(Cardinality(x.bm), GroupAlgo(f, x.bm, gb)) ELSE ErrRes, c |-> x.c]
=============================================================================
