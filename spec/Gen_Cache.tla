------------------------------ MODULE Gen_Cache ------------------------------
(* Behaviour generator for C03: every sequence of exactly MaxQ queries of MC_Cache's       *)
(* adversarial query set, with the answer the specification prescribes for each (it does  *)
(* not depend on the cache: that is the property).  vdrive replay-cacheseq runs them on   *)
(* one real index handle per sequence for every cache capacity and open mode.             *)
EXTENDS MC_Cache, Json

VARIABLE hist
gvars == <<vars, hist>>
GInit == Init /\ hist = <<>>
\* sequences are enumerated without group-by lists; each step carries the answer for every list of GBList and the
\* harness rotates through them
GNext == /\ nq < MaxQ
         /\ \E e \in QSet : LET x == ExecC(F, e, <<>>, c) IN
              /\ c' = x.c /\ resp' = [e |-> e, gb |-> <<>>, res |-> x.res] /\ nq' = nq + 1
              /\ hist' = Append(hist, [e |-> e, res |-> x.res, by |-> [g \in DOMAIN GBList |-> ExecSpec(Rows, e, GBList[g])]])
GSpec == GInit /\ [][GNext]_gvars
PairLT(a, b) == a[1] < b[1]
RowPairs(r) == SetToSortSeq({<<cc, r[cc]>> : cc \in DOMAIN r}, PairLT)
EmitSetup == hist = <<>> => PrintT(ToJson([tag |-> "setup", gbs |-> GBList, rows |-> [i \in DOMAIN Rows |-> RowPairs(Rows[i])]]))
EmitHist == Len(hist) = MaxQ => PrintT(ToJson([tag |-> "seq", steps |-> hist]))
=============================================================================
