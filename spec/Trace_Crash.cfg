SPECIFICATION TSpec
CONSTANTS
  Configs = {}
  HeaderFirst = FALSE
CONSTRAINT HighWater
POSTCONDITION Accepted
CHECK_DEADLOCK FALSE
