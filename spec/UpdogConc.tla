------------------------------ MODULE UpdogConc ------------------------------
(***************************************************************************)
(* Concurrent Execute on one open index (C04).  The index (file contents)  *)
(* is constant after Open; the only shared mutable state is the LRU cache  *)
(* c, guarded by its mutex.  Each thread evaluates its query as the stack  *)
(* machine query.go is: at every node Get, on a miss evaluate the children *)
(* left to right, combine, Put.  One step of the model = one cache call    *)
(* (the critical section) plus the thread-local computation that follows   *)
(* it up to the next cache call.                                           *)
(* With NoLruMutex (code as found) a cache call is split into a read half  *)
(* and a write half that other threads can interleave with.                *)
(***************************************************************************)
EXTENDS UpdogCache

CONSTANTS Threads, QueryOf, Rows, Cap, Ovh,
          NoLruMutex        \* negative control: Get/Put are not atomic

VARIABLES c,      \* the shared LRU cache
          th,     \* th[t] = [stack, done, bm, snap]: evaluation stack, finished?, result, snapshot read by a split cache call
          calls   \* ghost: number of cache calls completed by all threads
vars == <<c, th, calls>>

F == FileOf(Rows)
NoSnap == [has |-> FALSE, c |-> NewLRU(0, 0)]

Frame(e) == [e |-> e, st |-> "get", i |-> 1, acc |-> <<>>, bm |-> {}]
Combine(e, acc) == CASE e.op = "not" -> (1..F.n) \ acc[1]
                     [] e.op = "and" -> {p \in acc[1] : \A i \in DOMAIN acc : p \in acc[i]}
                     [] e.op = "or"  -> UNION {acc[i] : i \in DOMAIN acc}
Kids(e) == IF e.op = "not" THEN <<e.e>> ELSE e.es

\* thread-local computation: descend until the top frame is at a cache call
RECURSIVE Settle(_)
Settle(s) ==
  IF s = <<>> THEN s
  ELSE LET f == s[Len(s)] IN
       IF f.st # "kids" THEN s
       ELSE IF f.i > Len(Kids(f.e))
            THEN Settle([s EXCEPT ![Len(s)] = [f EXCEPT !.st = "put", !.bm = Combine(f.e, f.acc)]])
            ELSE Settle(Append([s EXCEPT ![Len(s)] = [f EXCEPT !.i = f.i + 1]], Frame(Kids(f.e)[f.i])))
\* a node finished with bitmap bm: pop it and hand bm to the parent (or finish the thread)
Deliver(t, s, bm) ==
  LET s1 == SubSeq(s, 1, Len(s) - 1) IN
  IF s1 = <<>> THEN [th[t] EXCEPT !.stack = <<>>, !.done = TRUE, !.bm = bm, !.snap = NoSnap]
  ELSE [th[t] EXCEPT !.stack = Settle([s1 EXCEPT ![Len(s1)] = [@ EXCEPT !.acc = Append(@, bm)]]), !.snap = NoSnap]

Init == /\ c = NewLRU(Cap, Ovh)
        /\ th = [t \in Threads |-> [stack |-> <<Frame(QueryOf[t])>>, done |-> FALSE, bm |-> {}, snap |-> NoSnap]]
        /\ calls = 0

\* the effect of thread t's next cache call when it sees cache value cv; yields the new cache and thread state
CallEffect(t, cv) ==
  LET s == th[t].stack  f == s[Len(s)] IN
  IF f.st = "get"
  THEN LET g == LruGet(cv, Key(f.e)) IN
       IF g.hit THEN [c |-> g.c, th |-> Deliver(t, s, g.bm)]
       ELSE IF f.e.op = "eq"
            THEN [c |-> g.c, th |-> [th[t] EXCEPT !.stack = [s EXCEPT ![Len(s)] = [f EXCEPT !.st = "put", !.bm = Fetch(F, f.e.col, f.e.val)]], !.snap = NoSnap]]
            ELSE [c |-> g.c, th |-> [th[t] EXCEPT !.stack = Settle([s EXCEPT ![Len(s)] = [f EXCEPT !.st = "kids"]]), !.snap = NoSnap]]
  ELSE [c |-> LruPut(cv, Key(f.e), f.bm, SizeOfBM(f.bm)), th |-> Deliver(t, s, f.bm)]

\* atomic cache call (the mutex is held for the whole Get / Put)
Step(t) == /\ ~NoLruMutex /\ ~th[t].done
           /\ LET r == CallEffect(t, c) IN c' = r.c /\ th' = [th EXCEPT ![t] = r.th]
           /\ calls' = calls + 1
\* without the mutex: read the cache, later write back what was computed from the stale copy
ReadHalf(t) == /\ NoLruMutex /\ ~th[t].done /\ ~th[t].snap.has
               /\ th' = [th EXCEPT ![t].snap = [has |-> TRUE, c |-> c]] /\ UNCHANGED <<c, calls>>
WriteHalf(t) == /\ NoLruMutex /\ ~th[t].done /\ th[t].snap.has
                /\ LET r == CallEffect(t, th[t].snap.c) IN c' = r.c /\ th' = [th EXCEPT ![t] = r.th]
                /\ calls' = calls + 1
AllDone == \A t \in Threads : th[t].done
Finished == AllDone /\ UNCHANGED vars        \* the only legitimate terminal state (TLC's deadlock check stays on)
Next == Finished \/ \E t \in Threads : Step(t) \/ ReadHalf(t) \/ WriteHalf(t)
Spec == Init /\ [][Next]_vars

\* every completed call returns exactly what it returns when run alone
SeqAnswer == \A t \in Threads : th[t].done => th[t].bm = SatSet(Rows, QueryOf[t])
CacheSound == LruWellFormed(c) /\ SizeBound(c) /\
              \A k \in Resident(c) : \A t \in Threads : \A e \in {QueryOf[t]} : Key(e) = k => c.ent[k].bm = SatSet(Rows, e)
\* lost updates of the unsynchronised cache show up as counters that do not add up
CountersExact == c.ctr.get = c.ctr.hit + c.ctr.miss /\ c.ctr.get + c.ctr.put = calls
=============================================================================
