------------------------------ MODULE UpdogConcWrite ------------------------------
(***************************************************************************)
(* Concurrent AddRow on one writer (C18).  AddRow's body under the writer  *)
(* mutex: read the next id, add the row's values to the per-(column,value) *)
(* bitmaps under that id, increment the counter (deferred, still inside    *)
(* the lock).  Each thread adds its own rows; every row carries a unique   *)
(* tag.  Negative controls: NoWriterMutex (the body's steps interleave),   *)
(* IncrementOutsideLock (the counter is bumped after the unlock).          *)
(***************************************************************************)
EXTENDS UpdogCore

CONSTANTS Threads, RowsOf,          \* RowsOf[t]: the rows thread t adds, in order
          NoWriterMutex, IncrementOutsideLock

VARIABLES next,    \* the writer's row counter
          bms,     \* bms[<<c, v>>]: set of ids (0-based) added under that (column,value)
          pc,      \* pc[t]: "idle" | "have_id" | "added" (only reachable without the mutex / with the late increment)
          todo,    \* todo[t]: rows still to add
          myid,    \* myid[t]: id read by the AddRow in progress
          ret      \* ret: set of <<id, row>> returned so far
vars == <<next, bms, pc, todo, myid, ret>>

Init == /\ next = 0 /\ bms = <<>> /\ ret = {}
        /\ pc = [t \in Threads |-> "idle"] /\ todo = [t \in Threads |-> RowsOf[t]] /\ myid = [t \in Threads |-> 0]

AddTo(b, id, row) == [k \in DOMAIN b \cup {<<cc, row[cc]>> : cc \in DOMAIN row} |->
                        (IF k \in DOMAIN b THEN b[k] ELSE {}) \cup (IF k[1] \in DOMAIN row /\ row[k[1]] = k[2] THEN {id} ELSE {})]

\* the whole body under the mutex: one atomic step
AddRowAtomic(t) ==
  /\ ~NoWriterMutex /\ ~IncrementOutsideLock /\ pc[t] = "idle" /\ todo[t] # <<>>
  /\ LET row == Head(todo[t]) IN
     /\ bms' = AddTo(bms, next, row) /\ ret' = ret \cup {<<next, row>>}
  /\ next' = next + 1 /\ todo' = [todo EXCEPT ![t] = Tail(@)] /\ UNCHANGED <<pc, myid>>
\* split body (negative controls)
ReadId(t) == /\ (NoWriterMutex \/ IncrementOutsideLock) /\ pc[t] = "idle" /\ todo[t] # <<>>
             /\ (IncrementOutsideLock /\ ~NoWriterMutex) => \A u \in Threads : pc[u] # "have_id"    \* the lock still covers read + add
             /\ myid' = [myid EXCEPT ![t] = next] /\ pc' = [pc EXCEPT ![t] = "have_id"] /\ UNCHANGED <<next, bms, todo, ret>>
AddVals(t) == /\ pc[t] = "have_id"
              /\ bms' = AddTo(bms, myid[t], Head(todo[t])) /\ ret' = ret \cup {<<myid[t], Head(todo[t])>>}
              /\ pc' = [pc EXCEPT ![t] = "added"] /\ UNCHANGED <<next, todo, myid>>
Incr(t) == /\ pc[t] = "added"
           /\ next' = next + 1 /\ todo' = [todo EXCEPT ![t] = Tail(@)] /\ pc' = [pc EXCEPT ![t] = "idle"] /\ UNCHANGED <<bms, myid, ret>>
AllDone == \A t \in Threads : todo[t] = <<>> /\ pc[t] = "idle"
Finished == AllDone /\ UNCHANGED vars
Next == Finished \/ \E t \in Threads : AddRowAtomic(t) \/ ReadId(t) \/ AddVals(t) \/ Incr(t)
Spec == Init /\ [][Next]_vars

Ids == {x[1] : x \in ret}
\* returned ids are 0..n-1 without duplicates
IdsArePermutation == Cardinality(ret) = Cardinality(Ids) /\ (AllDone => Ids = 0..(next - 1) /\ Cardinality(ret) = next)
\* the index is the one a sequential insertion of the same rows in id order produces
SeqRows == [i \in 1..Cardinality(Ids) |-> (CHOOSE x \in ret : x[1] = i - 1)[2]]
IndexEqualsSequential == AllDone => (Ids = 0..(next - 1) =>
                            \A k \in DOMAIN bms \cup KeysOf(SeqRows) :
                               (IF k \in DOMAIN bms THEN bms[k] ELSE {}) = {i - 1 : i \in BM(SeqRows, k[1], k[2])})
=============================================================================
