------------------------------ MODULE Trace_SQL ------------------------------
(* Trace validation for C17 under concurrency: many goroutines use fresh database/sql      *)
(* handles at once.  Every Query must succeed (no hang, no panic, right rows); how many     *)
(* driver connections database/sql opened is not logged, so a Query either re-uses a pool   *)
(* slot or adds one (TLC keeps both); after DB.Close the probes must find exactly the files *)
(* released that the model says are released.                                               *)
EXTENDS MC_SQL, TraceBase
tvars == <<cvars, l>>
TInit == TraceBaseInit /\ CInit
KeyOf(f, o) == [f |-> f, o |-> o]
TCycle == /\ IsEvent("Cycle")
          /\ \A f \in Files : flock[f] = "free"                  \* the previous cycle released everything
          /\ dbh' = [d \in Handles |-> [dbh[d] EXCEPT !.state = "none", !.pool = <<>>]]
          /\ UNCHANGED <<cache, conn, flock, pc, loc, out, steps>>
TSqlOpen == IsEvent("SqlOpen") /\ SqlOpen(Ev.d, KeyOf(Ev.f, Ev.o))
NewSlot(d) == LET k == dbh[d].key IN
              IF cache[k] # 0
              THEN /\ conn[cache[k]].open
                   /\ conn' = [conn EXCEPT ![cache[k]].refs = @ + 1] /\ dbh' = [dbh EXCEPT ![d].pool = Append(@, cache[k])]
                   /\ UNCHANGED <<cache, flock>>
              ELSE /\ flock[k.f] = "free"
                   /\ conn' = Append(conn, NewConn(k)) /\ cache' = [cache EXCEPT ![k] = Len(conn) + 1]
                   /\ flock' = [flock EXCEPT ![k.f] = "held"] /\ dbh' = [dbh EXCEPT ![d].pool = Append(@, Len(conn) + 1)]
TQuery == /\ IsEvent("Query") /\ Ev.out = "ok" /\ dbh[Ev.d].state = "open"
          /\ \/ dbh[Ev.d].pool # <<>> /\ (\A i \in DOMAIN dbh[Ev.d].pool : conn[dbh[Ev.d].pool[i]].open) /\ UNCHANGED <<cache, conn, flock, dbh>>
             \/ Len(dbh[Ev.d].pool) < 16 /\ NewSlot(Ev.d)
          /\ UNCHANGED <<pc, loc, out, steps>>
TClose == IsEvent("DBClose") /\ Ev.out = "ok" /\ DBClose(Ev.d)
TProbe == IsEvent("Probe") /\ Ev.free = (flock[Ev.f] = "free") /\ UNCHANGED cvars
TNext == TCycle \/ TSqlOpen \/ TQuery \/ TClose \/ TProbe
TSpec == TInit /\ [][TNext]_tvars
=============================================================================
