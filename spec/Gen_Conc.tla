------------------------------ MODULE Gen_Conc ------------------------------
(* Schedules for the gate replay (C04): every complete interleaving of the threads' cache  *)
(* calls, with the answers and cache counters the specification prescribes.                *)
EXTENDS MC_Conc, Json
\* schedule emission for the gate replay: the sequence of thread ids of a complete behaviour
VARIABLE sched
svars == <<vars, sched>>
SInit == Init /\ sched = <<>>
SNext == \E t \in Threads : Step(t) /\ sched' = Append(sched, t)
SSpec == SInit /\ [][SNext]_svars
PairLT(a, b) == a[1] < b[1]
RowPairs(r) == SetToSortSeq({<<cc, r[cc]>> : cc \in DOMAIN r}, PairLT)
EmitSetup == sched = <<>> => PrintT(ToJson([tag |-> "setup", rows |-> [i \in DOMAIN Rows |-> RowPairs(Rows[i])],
                                             qs |-> [t \in Threads |-> QueryOf[t]]]))
EmitSched == AllDone => PrintT(ToJson([tag |-> "sched", order |-> sched,
                                       counts |-> [t \in Threads |-> Cardinality(th[t].bm)],
                                       ctr |-> c.ctr]))
=============================================================================
