SPECIFICATION TSpec
CONSTANTS
  Keys <- KeysOneOpt
  Handles = {1, 2}
  Threads = {1}
  MaxSteps = 100000000
  NoDriverMutex = FALSE
  KeepClosedConnInCache = FALSE
CONSTRAINT HighWater
POSTCONDITION Accepted
CHECK_DEADLOCK FALSE
