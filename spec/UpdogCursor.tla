------------------------------ MODULE UpdogCursor ------------------------------
(***************************************************************************)
(* database/sql result sets (C12).  A query returns a *sql.Rows that the   *)
(* caller reads row by row; several result sets of one DB handle may be    *)
(* open at the same time (a nested query while iterating, two goroutines,  *)
(* one transaction).  A result set is a value fixed when the query ran:    *)
(* the rows a cursor delivers are exactly the rows of its query, in order, *)
(* whatever other queries run and whatever other cursors are read between  *)
(* its Next calls.                                                         *)
(*                                                                         *)
(* Cursors are numbered; Results[i] is what query i returns (for the real  *)
(* code: UpdogStmt.RowsOf of the library's answer).  A step of cursor i is  *)
(* "open it" when idle, "fetch the next row" while rows remain, "see the   *)
(* end and close" afterwards.  SharedBuffer is the negative control: all   *)
(* cursors of the handle build their rows in one scratch buffer.           *)
(***************************************************************************)
EXTENDS Naturals, Sequences, FiniteSets

CONSTANTS Results,        \* sequence of result sets (each a sequence of rows)
          SharedBuffer    \* negative control

VARIABLES cur,   \* cur[i] = [st : "idle" | "open" | "done", pos, seen]
          buf    \* the shared scratch buffer (negative control only)
cvars == <<cur, buf>>
Cursors == DOMAIN Results

CInit == cur = [i \in Cursors |-> [st |-> "idle", pos |-> 0, seen |-> <<>>]] /\ buf = <<>>

Open(i) == /\ cur[i].st = "idle"
           /\ cur' = [cur EXCEPT ![i].st = "open"]
           /\ buf' = IF SharedBuffer THEN Results[i] ELSE buf         \* the later query overwrites the buffer
Fetch(i) == /\ cur[i].st = "open" /\ cur[i].pos < Len(Results[i])
            /\ LET src == IF SharedBuffer THEN buf ELSE Results[i]
                   row == IF cur[i].pos + 1 <= Len(src) THEN src[cur[i].pos + 1] ELSE <<"garbage">>
               IN cur' = [cur EXCEPT ![i].pos = @ + 1, ![i].seen = Append(@, row)]
            /\ UNCHANGED buf
End(i) == /\ cur[i].st = "open" /\ cur[i].pos = Len(Results[i])
          /\ cur' = [cur EXCEPT ![i].st = "done"]
          /\ UNCHANGED buf
Step(i) == Open(i) \/ Fetch(i) \/ End(i)
CNext == \E i \in Cursors : Step(i)
CSpec == CInit /\ [][CNext]_cvars

IsPrefixOf(s, t) == Len(s) <= Len(t) /\ s = SubSeq(t, 1, Len(s))
\* what a cursor has delivered is always a prefix of its own result, and all of it once it is done
Snapshot == \A i \in Cursors : IsPrefixOf(cur[i].seen, Results[i]) /\ (cur[i].st = "done" => cur[i].seen = Results[i])
=============================================================================
