SPECIFICATION Spec
CONSTANTS
  Paths = {1}
  MaxSteps = 4
  Emit = FALSE
  KeepLockOnFailure = FALSE
  NoBucketCheck = FALSE
INVARIANTS NoPanicNoHang LockFreeWhenNoHandle EmitHist
PROPERTIES NothingCreated
CHECK_DEADLOCK FALSE
