SPECIFICATION Spec
CONSTANTS
  Threads = {1, 2, 3}
  RowsOf <- RowsOfDef
  NoWriterMutex = FALSE
  IncrementOutsideLock = FALSE
INVARIANTS IdsArePermutation IndexEqualsSequential
