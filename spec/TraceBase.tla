------------------------------ MODULE TraceBase ------------------------------
(* Common trace-validation plumbing: the trace is an ndjson file named by the environment *)
(* variable TRACE, l is the next line to be matched, acceptance is decided by the highest *)
(* l reached (TLC register 1, raised in a CONSTRAINT, compared in a POSTCONDITION), which *)
(* is also right for trace specs that branch; run with -workers 1.                        *)
EXTENDS Naturals, Sequences, TLC, Json, IOUtils

Trace == ndJsonDeserialize(IOEnv.TRACE)

VARIABLE l

TraceBaseInit == TLCSet(1, 1) /\ l = 1
IsEvent(e) == l <= Len(Trace) /\ Trace[l].ev = e /\ l' = l + 1
Ev == Trace[l]
HighWater == TLCSet(1, IF l > TLCGet(1) THEN l ELSE TLCGet(1))
Accepted == PrintT(<<"MAXL", TLCGet(1), Len(Trace) + 1>>) /\ TLCGet(1) = Len(Trace) + 1
=============================================================================
