------------------------------ MODULE Trace_CS ------------------------------
(* Mutual exclusion of the critical sections (LRU Get/Put, IndexWriter.AddRow,             *)
(* BigIndexWriter.AddRow) as observed through the verif hooks: CS{t,r} is logged when      *)
(* goroutine t is inside the section of resource r (the hook runs under the code's lock),  *)
(* Rel{t,r} right before it leaves the hook.  The lock is a variable: holder[r].           *)
EXTENDS TraceBase
VARIABLE holder
tvars == <<holder, l>>
Res == {"lru", "writer", "bigwriter", "driver"}
TInit == TraceBaseInit /\ holder = [r \in Res |-> 0]
Enter(t, r) == holder[r] = 0 /\ holder' = [holder EXCEPT ![r] = t]           \* at most one thread inside
Leave(t, r) == holder[r] = t /\ holder' = [holder EXCEPT ![r] = 0]
TCS == IsEvent("CS") /\ Enter(Ev.t, Ev.r)
TRel == IsEvent("Rel") /\ Leave(Ev.t, Ev.r)
TRound == IsEvent("Round") /\ holder' = [r \in Res |-> 0]
TNext == TCS \/ TRel \/ TRound
TSpec == TInit /\ [][TNext]_tvars
\* mutual exclusion is the guard of Enter: a CS event while another thread holds the resource matches no action
=============================================================================
