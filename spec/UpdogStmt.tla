------------------------------ MODULE UpdogStmt ------------------------------
(***************************************************************************)
(* Statements of the database/sql driver (C11, C12): a prepared statement  *)
(* stores a template (an expression whose leaves are literals or           *)
(* placeholders $n); a query binds arguments, executes the bound query     *)
(* with the library and turns the result into rows.  Pure operators.       *)
(***************************************************************************)
EXTENDS UpdogCore

\* template leaves: [op |-> "eq", col, val] or [op |-> "ph", col, ph]
RECURSIVE MaxPh(_)
MaxPh(e) == CASE e.op = "ph" -> e.ph [] e.op = "eq" -> 0 [] e.op = "not" -> MaxPh(e.e)
              [] OTHER -> LET m == {MaxPh(e.es[i]) : i \in DOMAIN e.es} IN IF m = {} THEN 0 ELSE CHOOSE x \in m : \A y \in m : y <= x
RECURSIVE BindR(_, _)
BindR(e, args) == CASE e.op = "ph"  -> [op |-> "eq", col |-> e.col, val |-> args[e.ph]]
                    [] e.op = "eq"  -> e
                    [] e.op = "not" -> [op |-> "not", e |-> BindR(e.e, args)]
                    [] OTHER        -> [op |-> e.op, es |-> [i \in DOMAIN e.es |-> BindR(e.es[i], args)]]
\* outcome of executing template tmpl with args on the index holding rows
\* too few arguments: an error (never a panic, never another query); extras are ignored or rejected
StmtOutcomes(rows, tmpl, gb, args) ==
  IF MaxPh(tmpl) > Len(args) THEN {ErrRes}
  ELSE LET r == ExecSpec(rows, BindR(tmpl, args), gb) IN
       IF MaxPh(tmpl) < Len(args) THEN {r, ErrRes} ELSE {r}
\* result -> rows: one row per group (possibly none) when there is a group-by clause, else the single count row
RowsOf(res, gb) == IF gb # <<>> THEN [i \in DOMAIN res.groups |-> Append(res.groups[i].vals, res.groups[i].count)]
                   ELSE <<<<res.count>>>>
ColsOf(gb) == Len(gb) + 1          \* the group-by columns followed by "count"


(* ------------------------------ data source names, Exec, transactions ------------------------------ *)
\* A DSN is abstract: [scheme, preload, lrucache, size]; scheme "file" | "grpc" | "other";
\* preload / lrucache: "absent" | "true" | "false" | "junk"; size: "absent" | "zero" | "num" | "junk" | "neg".
\* sql.Open itself never fails; the first use does.  Only the exact string "true" switches an option on.
\* "ok": must answer like the library; "either": an orderly error or the right rows (option values the
\* documentation does not define: junk booleans, a cache size that is missing / not a number / negative,
\* an unsupported scheme) -- never a panic, never wrong rows
DSNOutcome(dsn) ==
  IF /\ dsn.scheme = "file"
     /\ dsn.preload \in {"absent", "true", "false"}
     /\ \/ dsn.lrucache \in {"absent", "false"} /\ dsn.size \in {"absent", "zero", "num"}
        \/ dsn.lrucache = "true" /\ dsn.size \in {"zero", "num"}
  THEN "ok" ELSE "either"
\* which index options a usable file DSN selects (observable only through performance, never through answers)
DSNPreloads(dsn) == dsn.preload = "true"
DSNCaches(dsn)   == dsn.lrucache = "true"
\* statements only support queries: Exec is always an error; Begin / Commit / Rollback succeed and change nothing
ExecOutcome == "err"
TxOutcome   == "ok"
=============================================================================
