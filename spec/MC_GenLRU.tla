------------------------------ MODULE MC_GenLRU ------------------------------
EXTENDS Gen_LRU
CONSTANTS SzZero, SzSmall, SzMed, SzBig     \* real GetSizeInBytes of the harness' bitmaps, measured per run
SizeOfDef == (1 :> SzZero @@ 2 :> SzSmall @@ 3 :> SzMed @@ 4 :> SzBig)
=============================================================================
