SPECIFICATION Spec
CONSTANTS
  Mode = "tokens"
  MaxLen = 4
  Alphabet = {97, 49, 48, 32, 34, 36, 40, 41, 38, 124, 94, 61, 59, 44}
  Emit = FALSE
  LangLen = 0
  Prefix <- PrefixEmpty
  NoEOFCheck = FALSE
  DropUnterminated = FALSE
  WrapPlaceholder = FALSE
INVARIANTS TokensOK BytesOK EmitBytes EmitTokens
CHECK_DEADLOCK FALSE
