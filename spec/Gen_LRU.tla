------------------------------ MODULE Gen_LRU ------------------------------
(* Behaviour generator for C07: every Put/Get sequence of exactly MaxOps calls over Keys  *)
(* x SizeClasses, carried through two exact caches that differ only in the per-entry      *)
(* overhead they account (0 and OverheadMax).  The longest prefix the tolerant relation   *)
(* may keep lies between what these two keep, so when the twins agree after every step    *)
(* the observable outcome is forced ("det") and is emitted for step-by-step comparison;   *)
(* otherwise the sequence is emitted as "amb" and the harness records the real cache's    *)
(* behaviour on it for validation against the tolerant relation (Trace_LRU).              *)
EXTENDS UpdogLRU, Json

CONSTANTS Keys, SizeOf, MaxBytes, MaxOps     \* SizeOf: size class -> bytes (defined in the MC module)
VARIABLES lo, hi, hist, agree
gvars == <<lo, hi, hist, agree>>

Classes == DOMAIN SizeOf
Init == lo = NewLRU(MaxBytes, 0) /\ hi = NewLRU(MaxBytes, OverheadMax) /\ hist = <<>> /\ agree = TRUE
Obs(c) == SetToSortSeq(Resident(c), <)
Put(k, cl) == LET n == Len(hist) + 1 IN
              /\ lo' = LruPut(lo, k, n, SizeOf[cl]) /\ hi' = LruPut(hi, k, n, SizeOf[cl])
              /\ hist' = Append(hist, [op |-> "put", k |-> k, cl |-> cl, hit |-> FALSE, bm |-> n, res |-> Obs(lo')])
              /\ agree' = (agree /\ lo'.order = hi'.order)
Get(k) == LET g == LruGet(lo, k) IN
          /\ lo' = g.c /\ hi' = LruGet(hi, k).c
          /\ hist' = Append(hist, [op |-> "get", k |-> k, cl |-> 0, hit |-> g.hit, bm |-> g.bm, res |-> Obs(lo')])
          /\ agree' = agree
Next == Len(hist) < MaxOps /\ \E k \in Keys : Get(k) \/ \E cl \in Classes : Put(k, cl)
Spec == Init /\ [][Next]_gvars
Emit == Len(hist) = MaxOps =>
          PrintT(ToJson([tag |-> IF agree THEN "det" ELSE "amb", max |-> MaxBytes, ctr |-> lo.ctr, ops |-> hist]))
=============================================================================
