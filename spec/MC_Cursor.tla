------------------------------ MODULE MC_Cursor ------------------------------
(* Two result sets of 0..3 rows each, every interleaving of their steps (Snapshot; negative control   *)
(* SharedBuffer).  With Emit the step orders are printed: a schedule is the sequence of cursor numbers *)
(* stepped, which the harness applies to two real *sql.Rows of one DB handle (a cursor that is done    *)
(* is skipped, the schedule is repeated until both are done).                                         *)
EXTENDS UpdogCursor, TLC, Json
CONSTANTS LenA, LenB, Emit
MkRes(tag, n) == [k \in 1..n |-> <<tag, k>>]
ResultsMC == <<MkRes("a", LenA), MkRes("b", LenB)>>
VARIABLE sched
mvars == <<cvars, sched>>
Init == CInit /\ sched = <<>>
Next == \E i \in Cursors : Step(i) /\ sched' = Append(sched, i)
Spec == Init /\ [][Next]_mvars
AllDone == \A i \in Cursors : cur[i].st = "done"
EmitSched == (Emit /\ AllDone) => PrintT(ToJson([tag |-> "sched", order |-> sched]))
=============================================================================
