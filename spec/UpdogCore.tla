------------------------------ MODULE UpdogCore ------------------------------
(***************************************************************************)
(* Pure data model of updog: rows, expressions, their meaning (Sat), the   *)
(* declarative result of a query (ExecSpec: SQL COUNT / GROUP BY), and the *)
(* implementation-shaped definitions (bitmaps per (column,value), EvalBM,  *)
(* nested group-by refinement, the big writer's sorted-stream rebuild).    *)
(*                                                                         *)
(* Columns and values are ranks (naturals); the byte strings they stand    *)
(* for and their byte-wise order are fixed by a dictionary that is part of *)
(* every behaviour / trace (see UpdogDict).  Row positions are 1-based in  *)
(* the spec; the row id the code returns is position - 1.                  *)
(***************************************************************************)
EXTENDS Naturals, Sequences, FiniteSets, SequencesExt, FiniteSetsExt, Functions, Folds, TLC

Has(r, c) == c \in DOMAIN r

RECURSIVE Sat(_, _)
Sat(r, e) == CASE e.op = "eq"  -> Has(r, e.col) /\ r[e.col] = e.val
               [] e.op = "not" -> ~Sat(r, e.e)
               [] e.op = "and" -> \A i \in DOMAIN e.es : Sat(r, e.es[i])
               [] e.op = "or"  -> \E i \in DOMAIN e.es : Sat(r, e.es[i])

RECURSIVE ExprCols(_)
ExprCols(e) == CASE e.op = "eq"  -> {e.col}
                 [] e.op = "not" -> ExprCols(e.e)
                 [] OTHER        -> UNION {ExprCols(e.es[i]) : i \in DOMAIN e.es}

RECURSIVE WellFormed(_)           \* every AND/OR has at least one operand, no holes
WellFormed(e) == CASE e.op = "eq"  -> TRUE
                   [] e.op = "not" -> WellFormed(e.e)
                   [] e.op \in {"and", "or"} -> Len(e.es) >= 1 /\ \A i \in DOMAIN e.es : WellFormed(e.es[i])
                   [] OTHER -> FALSE

RECURSIVE ExprSize(_)
ExprSize(e) == CASE e.op = "eq"  -> 1
                 [] e.op = "not" -> 1 + ExprSize(e.e)
                 [] OTHER        -> 1 + FoldFunction(LAMBDA x, acc : acc + x, 0, [i \in DOMAIN e.es |-> ExprSize(e.es[i])])

Pos(rows)      == DOMAIN rows
SatSet(rows, e) == {i \in Pos(rows) : Sat(rows[i], e)}
Cols(rows)     == UNION {DOMAIN rows[i] : i \in Pos(rows)}
Vals(rows, c)  == {rows[i][c] : i \in {j \in Pos(rows) : Has(rows[j], c)}}
SchemaOf(rows) == [c \in Cols(rows) |-> Vals(rows, c)]
BM(rows, c, v) == {i \in Pos(rows) : Has(rows[i], c) /\ rows[i][c] = v}

(* ---------------- results ---------------- *)
ErrRes == [ok |-> FALSE, count |-> 0, groups |-> <<>>]
OkRes(n, g) == [ok |-> TRUE, count |-> n, groups |-> g]

\* lexicographic order on equal-length tuples of naturals
RECURSIVE LexLT(_, _)
LexLT(s, t) == IF s = <<>> \/ t = <<>> THEN FALSE
               ELSE IF Head(s) # Head(t) THEN Head(s) < Head(t)
               ELSE LexLT(Tail(s), Tail(t))

HasAll(r, gb)  == \A k \in DOMAIN gb : Has(r, gb[k])
GTuple(r, gb) == [k \in DOMAIN gb |-> r[gb[k]]]

(* Declarative GROUP BY: the tuples carried by at least one satisfying row, each with *)
(* its exact count, in lexicographic order; each group names its columns (list order). *)
GroupSpec(rows, S, gb) ==
  IF gb = <<>> THEN <<>>
  ELSE LET withAll == {i \in S : HasAll(rows[i], gb)}
           tuples  == {GTuple(rows[i], gb) : i \in withAll}
           sorted  == SetToSortSeq(tuples, LexLT)
       IN [k \in DOMAIN sorted |->
             [cols |-> gb, vals |-> sorted[k],
              count |-> Cardinality({i \in withAll : GTuple(rows[i], gb) = sorted[k]})]]

QueryOK(rows, e, gb) == ExprCols(e) \subseteq Cols(rows) /\ Range(gb) \subseteq Cols(rows)

ExecSpec(rows, e, gb) ==
  IF ~QueryOK(rows, e, gb) THEN ErrRes
  ELSE LET S == SatSet(rows, e) IN OkRes(Cardinality(S), GroupSpec(rows, S, gb))

(* Checking form of the same statement, linear in the reported groups: used by trace  *)
(* validation on large datasets where building GroupSpec would be quadratic.          *)
GroupsMatch(rows, S, gb, groups) ==
  IF gb = <<>> THEN groups = <<>>
  ELSE LET withAll == {i \in S : HasAll(rows[i], gb)} IN
       /\ \A k \in DOMAIN groups :
            /\ groups[k].cols = gb
            /\ Len(groups[k].vals) = Len(gb)
            /\ groups[k].count > 0
            /\ groups[k].count = Cardinality({i \in withAll : GTuple(rows[i], gb) = groups[k].vals})
       /\ \A k \in 1..(Len(groups) - 1) : LexLT(groups[k].vals, groups[k + 1].vals)
       /\ FoldFunction(LAMBDA x, acc : acc + x, 0, [k \in DOMAIN groups |-> groups[k].count]) = Cardinality(withAll)

ResMatches(rows, e, gb, res) ==
  IF ~QueryOK(rows, e, gb) THEN res.ok = FALSE
  ELSE LET S == SatSet(rows, e) IN
       res.ok /\ res.count = Cardinality(S) /\ GroupsMatch(rows, S, gb, res.groups)

(* ---------------- implementation-shaped definitions ---------------- *)
\* file / in-memory contents: one bitmap (set of positions) per (column,value) key
KeysOf(rows)   == UNION {{<<c, rows[i][c]>> : c \in DOMAIN rows[i]} : i \in Pos(rows)}
Bitmaps(rows)  == [k \in KeysOf(rows) |-> BM(rows, k[1], k[2])]
FileOf(rows)   == [schema |-> SchemaOf(rows), n |-> Len(rows), V |-> Bitmaps(rows)]

Fetch(f, c, v) == IF <<c, v>> \in DOMAIN f.V THEN f.V[<<c, v>>] ELSE {}    \* missing key -> empty bitmap

\* expression evaluation over a file: [ok, bm]
RECURSIVE EvalBM(_, _)
EvalList(f, es) == [i \in DOMAIN es |-> EvalBM(f, es[i])]
EvalBM(f, e) ==
  CASE e.op = "eq"  -> IF e.col \in DOMAIN f.schema THEN [ok |-> TRUE, bm |-> Fetch(f, e.col, e.val)]
                       ELSE [ok |-> FALSE, bm |-> {}]
    [] e.op = "not" -> LET x == EvalBM(f, e.e) IN
                       IF x.ok THEN [ok |-> TRUE, bm |-> (1..f.n) \ x.bm] ELSE x
    [] e.op = "and" -> LET xs == EvalList(f, e.es) IN
                       IF \A i \in DOMAIN xs : xs[i].ok
                       THEN [ok |-> TRUE, bm |-> {p \in xs[1].bm : \A i \in DOMAIN xs : p \in xs[i].bm}]
                       ELSE [ok |-> FALSE, bm |-> {}]
    [] e.op = "or"  -> LET xs == EvalList(f, e.es) IN
                       IF \A i \in DOMAIN xs : xs[i].ok
                       THEN [ok |-> TRUE, bm |-> UNION {xs[i].bm : i \in DOMAIN xs}]
                       ELSE [ok |-> FALSE, bm |-> {}]

\* nested refinement of query.go groupBy: for each partial group x each value (ascending),
\* intersect with the value bitmap and drop empties; every refined group owns its fields.
RECURSIVE Refine(_, _, _)
Refine(f, groups, gb) ==
  IF gb = <<>> THEN groups
  ELSE LET c  == Head(gb)
           vs == SetToSortSeq(f.schema[c], <)
           step(g) == SelectSeq([k \in DOMAIN vs |->
                                   [vals |-> Append(g.vals, vs[k]), bm |-> g.bm \cap Fetch(f, c, vs[k])]],
                                LAMBDA x : x.bm # {})
       IN Refine(f, FlattenSeq([j \in DOMAIN groups |-> step(groups[j])]), Tail(gb))

GroupAlgo(f, bm, gb) ==
  IF gb = <<>> THEN <<>>
  ELSE LET gs == Refine(f, <<[vals |-> <<>>, bm |-> bm]>>, gb)
       IN [k \in DOMAIN gs |-> [cols |-> gb, vals |-> gs[k].vals, count |-> Cardinality(gs[k].bm)]]

ExecAlgo(f, e, gb) ==
  IF ~(Range(gb) \subseteq DOMAIN f.schema) THEN ErrRes
  ELSE LET x == EvalBM(f, e) IN
       IF ~x.ok THEN ErrRes ELSE OkRes(Cardinality(x.bm), GroupAlgo(f, x.bm, gb))

(* ---------------- big writer: rebuild from the sorted <<key, position>> stream ---------------- *)
KeyLT(a, b) == a[1] < b[1] \/ (a[1] = b[1] /\ a[2] < b[2])
EntLT(a, b) == KeyLT(a[1], b[1]) \/ (a[1] = b[1] /\ a[2] < b[2])
TempStream(rows) == SetToSortSeq(UNION {{<<<<c, rows[i][c]>>, i>> : c \in DOMAIN rows[i]} : i \in Pos(rows)}, EntLT)

\* fold of writer_big.go Flush: rotate the current bitmap out whenever the key changes,
\* write the last one after the loop (dropLast = the historical bug of forgetting it).
RECURSIVE BigFold(_, _, _, _, _)
BigFold(stream, i, cur, bm, V) ==
  IF i > Len(stream) THEN [cur |-> cur, bm |-> bm, V |-> V]
  ELSE LET k == stream[i][1]  p == stream[i][2] IN
       IF cur # <<k>>
       THEN BigFold(stream, i + 1, <<k>>, {p}, IF cur = <<>> THEN V ELSE V @@ (cur[1] :> bm))
       ELSE BigFold(stream, i + 1, cur, bm \cup {p}, V)
BigV(rows, dropLast) ==
  LET r == BigFold(TempStream(rows), 1, <<>>, {}, <<>>) IN
  IF r.cur = <<>> \/ dropLast THEN r.V ELSE r.V @@ (r.cur[1] :> r.bm)
BigFileOf(rows, dropLast) == [schema |-> SchemaOf(rows), n |-> Len(rows), V |-> BigV(rows, dropLast)]

=============================================================================
