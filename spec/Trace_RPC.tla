------------------------------ MODULE Trace_RPC ------------------------------
(* Trace validation for C13/C14: random requests against a real server process.  The      *)
(* decoded structure of each request (holes explicit) and the reply are logged; the reply *)
(* must be the one UpdogRPC's Request action prescribes and the server must stay up.      *)
EXTENDS UpdogRPC, TraceBase
VARIABLE rows
tvars == <<rvars, rows, l>>
RowOf(pairs) == [c \in {pairs[i][1] : i \in DOMAIN pairs} |-> pairs[CHOOSE i \in DOMAIN pairs : pairs[i][1] = c][2]]
TInit == TraceBaseInit /\ RInit /\ rows = <<>>
TSetup == IsEvent("Setup") /\ rows' = [i \in DOMAIN Ev.rows |-> RowOf(Ev.rows[i])] /\ UNCHANGED rvars
Matches(want, got) ==
  /\ want.kind = got.kind
  /\ want.kind = "response" =>
       /\ Len(got.results) = Len(want.results)
       /\ \A i \in DOMAIN want.results :
            /\ got.results[i].id = want.results[i].id
            /\ want.results[i].out.kind = "res" => got.results[i].res = want.results[i].out.res
TRequest == /\ IsEvent("Request") /\ Request(rows, Ev.batch) /\ Matches(reply', Ev.reply) /\ UNCHANGED rows
TDeep == IsEvent("DeepRequest") /\ Ev.alive /\ UNCHANGED <<rvars, rows>>
TAlive == IsEvent("Alive") /\ Ev.up /\ proc = "up" /\ UNCHANGED <<rvars, rows>>
TNext == TSetup \/ TRequest \/ TDeep \/ TAlive
TSpec == TInit /\ [][TNext]_tvars
=============================================================================
