------------------------------ MODULE Gen_Lib ------------------------------
(* Behaviour generator for the library family: every reachable writer state (dataset) of  *)
(* MC_Core together with its observable projection as the specification prescribes it:    *)
(* the schema and the answer to every query of the finite query set.  vdrive replay-lib   *)
(* builds the dataset with every writer, opens it in every mode and compares.             *)
EXTENDS MC_Core, Json

CONSTANT GenSel      \* "count" | "groups" | "roundtrip": which part of the projection is emitted

PairLT(a, b) == a[1] < b[1]
RowPairs(r) == SetToSortSeq({<<c, r[c]>> : c \in DOMAIN r}, PairLT)
\* group-by lists beyond MaxGB: repeated prefixes and lengths 4..6 (sibling groups share a prefix)
LongGBs == {<<1, 1, 1, 2>>, <<1, 2, 1, 2>>, <<2, 1, 1, 2>>, <<2, 2, 1, 1>>, <<1, 2, 2, 1, 2>>, <<2, 1, 2, 1, 2, 1>>,
            <<1, 1, 1, 1, 2, 2>>, <<1, 2, 3>>, <<2, 1, 2>>, <<1, 1, 2>>}
GExprs  == {[op |-> "or", es |-> <<[op |-> "eq", col |-> 1, val |-> 1], [op |-> "not", e |-> [op |-> "eq", col |-> 1, val |-> 1]]>>],
            [op |-> "eq", col |-> 1, val |-> 1], [op |-> "not", e |-> [op |-> "eq", col |-> 2, val |-> 2]],
            [op |-> "and", es |-> <<[op |-> "not", e |-> [op |-> "eq", col |-> 1, val |-> 3]]>>],
            [op |-> "eq", col |-> 3, val |-> 1], [op |-> "eq", col |-> 2, val |-> 3]}
EQ(c, v) == [op |-> "eq", col |-> c, val |-> v]
Taut == [op |-> "or", es |-> <<EQ(1, 1), [op |-> "not", e |-> EQ(1, 1)]>>]
\* round trip: per (column,value) the exact member rows, observable through the unique column 4
Membership == ({EQ(c, v) : c \in DCols, v \in DVals} \cup {Taut, [op |-> "not", e |-> Taut]}) \X {<<4>>, <<>>, <<4, 1>>}
QSeq == SetToSeq(CASE GenSel = "count"  -> Exprs \X {<<>>}
                   [] GenSel = "groups" -> GExprs \X ((GBs \cup LongGBs) \ {<<>>})
                   [] OTHER             -> Membership)
SchemaSeq == LET cs == SetToSortSeq(Cols(rows), <) IN
             [i \in DOMAIN cs |-> <<cs[i], SetToSortSeq(Vals(rows, cs[i]), <)>>]

EmitQueries == rows = <<>> =>
   PrintT(ToJson([tag |-> "queries", qs |-> [i \in DOMAIN QSeq |-> [e |-> QSeq[i][1], gb |-> QSeq[i][2]]]]))
DSLine(rs) == ToJson([tag |-> "ds",
                      rows |-> [i \in DOMAIN rs |-> RowPairs(rs[i])],
                      schema |-> LET cs == SetToSortSeq(Cols(rs), <) IN [i \in DOMAIN cs |-> <<cs[i], SetToSortSeq(Vals(rs, cs[i]), <)>>],
                      res |-> [i \in DOMAIN QSeq |-> ExecSpec(rs, QSeq[i][1], QSeq[i][2])]])
\* round trip: the same dataset again with two trailing rows that have no columns (the row universe counts them)
EmitDS == PrintT(DSLine(rows)) /\ (GenSel = "roundtrip" => PrintT(DSLine(rows \o << <<>>, <<>> >>)))
=============================================================================
