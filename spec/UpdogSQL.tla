------------------------------ MODULE UpdogSQL ------------------------------
(***************************************************************************)
(* The database/sql driver (driver/driver.go).                             *)
(*  Part 1 (C11, C12): statements.  A prepared statement stores a template *)
(*   (an expression whose leaves are literals or placeholders $n); a query *)
(*   binds arguments, executes the bound query with the library and turns  *)
(*   the result into rows.                                                 *)
(*  Part 2 (C17): the driver's connection cache.  The driver hands out one *)
(*   shared connection object per (file, options) key with a reference     *)
(*   count; the index behind it holds the file's exclusive lock.  Opening  *)
(*   is lookup / open index / insert / ref++; closing is ref-- and, at 0,  *)
(*   remove from the cache and close the index.  The mutex is modelled as  *)
(*   atomicity; NoDriverMutex splits the steps (code as found).            *)
(***************************************************************************)
EXTENDS UpdogStmt

(* ------------------------------ part 2: handles and the connection cache ------------------------------ *)
CONSTANTS Keys,                    \* (file, options) keys: records [f, o]
          Handles, Threads, MaxSteps,
          NoDriverMutex,           \* negative control (code as found): lookup / open / insert are separate steps
          KeepClosedConnInCache    \* negative control (code as found): the last Close leaves the entry in the cache

VARIABLES cache,    \* cache[k] : connection id or 0
          conn,     \* conn[c]  : [key, refs, open]
          flock,    \* flock[f] : "free" | "held"
          dbh,      \* dbh[d]   : [key, state : "none" | "open" | "closed", pool : sequence of connection ids, one per pool slot]
          pc,       \* pc[t]    : per-thread program counter for a query in progress
          loc,      \* loc[t]   : thread-local [d, s, c]: handle, pool slot in use (0: none yet), connection
          out,      \* last outcome: "ok" | "panic" | "init"
          steps
cvars == <<cache, conn, flock, dbh, pc, loc, out, steps>>

Files == {k.f : k \in Keys}
NoLoc == [d |-> 0, s |-> 0, c |-> 0]
CInit == /\ cache = [k \in Keys |-> 0] /\ conn = <<>> /\ flock = [f \in Files |-> "free"]
         /\ dbh = [d \in Handles |-> [key |-> CHOOSE k \in Keys : TRUE, state |-> "none", pool |-> <<>>]]
         /\ pc = [t \in Threads |-> "idle"] /\ loc = [t \in Threads |-> NoLoc] /\ out = "init" /\ steps = 0
Tick == steps < MaxSteps /\ steps' = steps + 1
Quiescent == \A t \in Threads : pc[t] = "idle"

SqlOpen(d, k) == /\ Tick /\ dbh[d].state = "none"
                 /\ dbh' = [dbh EXCEPT ![d] = [key |-> k, state |-> "open", pool |-> <<>>]]
                 /\ UNCHANGED <<cache, conn, flock, pc, loc, out>>

SlotBusy(d, i) == \E u \in Threads : loc[u].d = d /\ loc[u].s = i
\* a thread starts a query on handle d: database/sql takes an idle pool slot or asks the driver for a connection
Begin(t, d) == /\ Tick /\ pc[t] = "idle" /\ dbh[d].state = "open"
               /\ \/ \E i \in DOMAIN dbh[d].pool : ~SlotBusy(d, i) /\
                       pc' = [pc EXCEPT ![t] = "have"] /\ loc' = [loc EXCEPT ![t] = [d |-> d, s |-> i, c |-> dbh[d].pool[i]]]
                  \/ /\ \A i \in DOMAIN dbh[d].pool : SlotBusy(d, i)
                     /\ pc' = [pc EXCEPT ![t] = "driveropen"] /\ loc' = [loc EXCEPT ![t] = [d |-> d, s |-> 0, c |-> 0]]
               /\ UNCHANGED <<cache, conn, flock, dbh, out>>
NewConn(k) == [key |-> k, refs |-> 1, open |-> TRUE]
\* the new connection becomes a new pool slot of the handle, in use by the thread
Pooled(t, c) == /\ dbh' = [dbh EXCEPT ![loc[t].d].pool = Append(@, c)]
                /\ loc' = [loc EXCEPT ![t].c = c, ![t].s = Len(dbh[loc[t].d].pool) + 1]
\* driver.Open, atomic under the driver mutex
DriverOpenAtomic(t) ==
  /\ ~NoDriverMutex /\ pc[t] = "driveropen"
  /\ LET k == dbh[loc[t].d].key IN
     IF cache[k] # 0
     THEN /\ conn' = [conn EXCEPT ![cache[k]].refs = @ + 1] /\ Pooled(t, cache[k]) /\ UNCHANGED <<cache, flock>>
     ELSE /\ flock[k.f] = "free"                                  \* otherwise bbolt blocks on the file lock: no step
          /\ conn' = Append(conn, NewConn(k)) /\ cache' = [cache EXCEPT ![k] = Len(conn) + 1]
          /\ flock' = [flock EXCEPT ![k.f] = "held"] /\ Pooled(t, Len(conn) + 1)
  /\ pc' = [pc EXCEPT ![t] = "have"] /\ UNCHANGED <<out, steps>>
\* the same as separate steps
Lookup(t) == /\ NoDriverMutex /\ pc[t] = "driveropen"
             /\ LET k == dbh[loc[t].d].key IN
                IF cache[k] # 0 THEN pc' = [pc EXCEPT ![t] = "hit"] /\ loc' = [loc EXCEPT ![t].c = cache[k]]
                ELSE pc' = [pc EXCEPT ![t] = "miss"] /\ UNCHANGED loc
             /\ UNCHANGED <<cache, conn, flock, dbh, out, steps>>
HitRef(t) == /\ pc[t] = "hit"
             /\ conn' = [conn EXCEPT ![loc[t].c].refs = @ + 1] /\ Pooled(t, loc[t].c)
             /\ pc' = [pc EXCEPT ![t] = "have"] /\ UNCHANGED <<cache, flock, out, steps>>
OpenIdx(t) == /\ pc[t] = "miss"
              /\ LET k == dbh[loc[t].d].key IN
                 /\ flock[k.f] = "free"
                 /\ flock' = [flock EXCEPT ![k.f] = "held"]
                 /\ conn' = Append(conn, NewConn(k)) /\ loc' = [loc EXCEPT ![t].c = Len(conn) + 1]
              /\ pc' = [pc EXCEPT ![t] = "insert"] /\ UNCHANGED <<cache, dbh, out, steps>>
Insert(t) == /\ pc[t] = "insert"
             /\ cache' = [cache EXCEPT ![dbh[loc[t].d].key] = loc[t].c] /\ Pooled(t, loc[t].c)
             /\ pc' = [pc EXCEPT ![t] = "have"] /\ UNCHANGED <<conn, flock, out, steps>>
\* execute on the connection, then give the slot back to the pool
Exec(t) == /\ pc[t] = "have"
           /\ out' = IF conn[loc[t].c].open THEN "ok" ELSE "panic"       \* a closed connection has no index
           /\ pc' = [pc EXCEPT ![t] = "idle"] /\ loc' = [loc EXCEPT ![t] = NoLoc]
           /\ UNCHANGED <<cache, conn, flock, dbh, steps>>
\* DB.Close: closes the connection of every pool slot (no query of this handle in flight)
RECURSIVE CloseAll(_, _, _, _, _)
CloseAll(pool, i, cn, ca, fl) ==
  IF i > Len(pool) THEN [conn |-> cn, cache |-> ca, flock |-> fl]
  ELSE LET c == pool[i]
           last == cn[c].refs = 1
       IN CloseAll(pool, i + 1,
                   [cn EXCEPT ![c].refs = @ - 1, ![c].open = IF last THEN FALSE ELSE @],
                   IF last /\ ~KeepClosedConnInCache /\ ca[cn[c].key] = c THEN [ca EXCEPT ![cn[c].key] = 0] ELSE ca,
                   IF last THEN [fl EXCEPT ![cn[c].key.f] = "free"] ELSE fl)
DBClose(d) == /\ Tick /\ dbh[d].state = "open" /\ \A t \in Threads : loc[t].d # d
              /\ LET r == CloseAll(dbh[d].pool, 1, conn, cache, flock) IN conn' = r.conn /\ cache' = r.cache /\ flock' = r.flock
              /\ dbh' = [dbh EXCEPT ![d].state = "closed", ![d].pool = <<>>]
              /\ UNCHANGED <<pc, loc, out>>
\* One whole query by a caller that is alone on handle d (sequential use): take the idle pool slot or ask the
\* driver for a connection, execute, give the slot back.  "hang": the index file is locked by another
\* connection (a different option string on the same file) and bbolt waits for the lock without timeout.
QuerySeq(d) ==
  /\ Tick /\ dbh[d].state = "open" /\ Quiescent
  /\ LET k == dbh[d].key IN
     IF dbh[d].pool # <<>>
     THEN out' = (IF conn[dbh[d].pool[1]].open THEN "ok" ELSE "panic") /\ UNCHANGED <<cache, conn, flock, dbh>>
     ELSE IF cache[k] # 0
          THEN /\ out' = (IF conn[cache[k]].open THEN "ok" ELSE "panic")
               /\ conn' = [conn EXCEPT ![cache[k]].refs = @ + 1] /\ dbh' = [dbh EXCEPT ![d].pool = <<cache[k]>>]
               /\ UNCHANGED <<cache, flock>>
          ELSE IF flock[k.f] = "held"
               THEN out' = "hang" /\ UNCHANGED <<cache, conn, flock, dbh>>
               ELSE /\ out' = "ok" /\ conn' = Append(conn, NewConn(k)) /\ cache' = [cache EXCEPT ![k] = Len(conn) + 1]
                    /\ flock' = [flock EXCEPT ![k.f] = "held"] /\ dbh' = [dbh EXCEPT ![d].pool = <<Len(conn) + 1>>]
  /\ UNCHANGED <<pc, loc>>
\* a closed handle variable may be re-used for a new sql.Open
Reuse(d) == /\ Tick /\ dbh[d].state = "closed" /\ dbh' = [dbh EXCEPT ![d].state = "none"] /\ UNCHANGED <<cache, conn, flock, pc, loc, out>>

CNext == \/ \E d \in Handles : (\E k \in Keys : SqlOpen(d, k)) \/ DBClose(d) \/ Reuse(d) \/ \E t \in Threads : Begin(t, d)
         \/ \E t \in Threads : DriverOpenAtomic(t) \/ Lookup(t) \/ HitRef(t) \/ OpenIdx(t) \/ Insert(t) \/ Exec(t)
CSpec == CInit /\ [][CNext]_cvars

\* C17
NoUseAfterClose == out # "panic"
Slots(c) == {<<d, i>> \in Handles \X (1..8) : i \in DOMAIN dbh[d].pool /\ dbh[d].pool[i] = c}
RefsExact == \A c \in DOMAIN conn : conn[c].refs = Cardinality(Slots(c)) + Cardinality({t \in Threads : pc[t] = "insert" /\ loc[t].c = c})
ReleasedWhenNoHandle == \A f \in Files : ((\A d \in Handles : dbh[d].pool = <<>> \/ dbh[d].key.f # f) /\ Quiescent) => flock[f] = "free"
\* no thread is ever stuck waiting for a file lock nobody will release: a thread about to open an index finds the
\* file free unless a thread that is still running holds it
NoHang == \A t \in Threads : (pc[t] = "miss" \/ (pc[t] = "driveropen" /\ ~NoDriverMutex /\ cache[dbh[loc[t].d].key] = 0)) =>
            LET f == dbh[loc[t].d].key.f IN
            flock[f] = "free" \/ \E c \in DOMAIN conn : conn[c].open /\ conn[c].key.f = f /\ cache[conn[c].key] = c /\ conn[c].key = dbh[loc[t].d].key
=============================================================================
