------------------------------ MODULE LRUInd ------------------------------
(* Inductive-invariant check of the LRU byte bound for arbitrary states (Apalache):          *)
(* keys 1..N, sizes 0..S, capacity Max, overhead Ovh; Put keeps the longest prefix of the    *)
(* recency order (new key first) whose accounted size fits.                                  *)
EXTENDS Integers, Sequences, FiniteSets, Apalache

CONSTANTS
  \* @type: Int;
  N,
  \* @type: Int;
  S,
  \* @type: Int;
  Max,
  \* @type: Int;
  Ovh,
  \* @type: Bool;
  NoEvictOnOverwrite     \* negative control: overwriting an existing key skips the eviction loop

VARIABLES
  \* @type: Seq(Int);
  order,
  \* @type: Int -> Int;
  size

Keys == 1..N
\* @type: (Seq(Int), Int -> Int) => Int;
Acc(o, sz) == ApaFoldSeqLeft(LAMBDA a, k: a + sz[k] + Ovh, 0, o)
\* @type: (Seq(Int), Int -> Int) => Int;
Real(o, sz) == ApaFoldSeqLeft(LAMBDA a, k: a + sz[k], 0, o)
\* @type: (Seq(Int), Int) => Seq(Int);
Without(o, k) == ApaFoldSeqLeft(LAMBDA acc, x: IF x = k THEN acc ELSE Append(acc, x), <<>>, o)
\* @type: Seq(Int) => Bool;
NoDup(o) == \A i, j \in DOMAIN o : i # j => o[i] # o[j]

IndInv == /\ Len(order) <= N /\ NoDup(order)
          /\ \A i \in DOMAIN order : order[i] \in Keys
          /\ DOMAIN size = Keys /\ \A k \in Keys : size[k] >= 0 /\ size[k] <= S
          /\ Acc(order, size) <= Max

IndInit == /\ order = Gen(4) /\ size = Gen(4) /\ IndInv

\* keep the longest prefix that fits: fold keeps elements while the running accounted sum fits
\* @type: (Seq(Int), Int -> Int) => Seq(Int);
KeepFitting(o, sz) ==
  LET \* @type: (<<Seq(Int), Int, Bool>>, Int) => <<Seq(Int), Int, Bool>>;
      step(st, k) == IF st[3] /\ st[2] + sz[k] + Ovh <= Max THEN <<Append(st[1], k), st[2] + sz[k] + Ovh, TRUE>> ELSE <<st[1], st[2], FALSE>>
  IN ApaFoldSeqLeft(step, <<<<>>, 0, TRUE>>, o)[1]

Put(k, s) == LET sz == [size EXCEPT ![k] = s]
                 o1 == <<k>> \o Without(order, k) IN
             /\ size' = sz
             /\ order' = IF NoEvictOnOverwrite /\ (\E i \in DOMAIN order : order[i] = k) THEN o1 ELSE KeepFitting(o1, sz)
Get(k) == /\ size' = size
          /\ order' = IF \E i \in DOMAIN order : order[i] = k THEN <<k>> \o Without(order, k) ELSE order
Next == \E k \in Keys : Get(k) \/ \E s \in 0..40 : s <= S /\ Put(k, s)
\* capacity, overhead and the size range are symbolic: the induction covers all of them at once
ConstInit == N = 4 /\ S \in 0..40 /\ Max \in 0..120 /\ Ovh \in 0..8 /\ NoEvictOnOverwrite \in BOOLEAN
ConstInitOK == ConstInit /\ NoEvictOnOverwrite = FALSE
ConstInitBad == ConstInit /\ NoEvictOnOverwrite = TRUE
Init == order = <<>> /\ size = [k \in Keys |-> 0]
SizeBound == Real(order, size) <= Max
=============================================================================
