------------------------------ MODULE UpdogLib ------------------------------
(***************************************************************************)
(* The updog library as one sequential state machine, at the grain of its  *)
(* public calls: writers (in-memory to file, in-memory into a caller's     *)
(* bbolt DB, big disk-backed), the file system, index handles, re-usable   *)
(* Query objects.  One action per public call; the response of the call is *)
(* the variable resp.  Properties C01 C02 C05 C08 C16 are invariants /      *)
(* action properties over it; Trace_Lib re-uses these actions.             *)
(***************************************************************************)
EXTENDS UpdogCore

CONSTANTS Paths,               \* file names
          DropLastBitmap,      \* negative control: big writer forgets the final bitmap
          KeepGroupByScratch,  \* negative control: group-by scratch survives in the Query object (code as found)
          ClobberOnFlush,      \* negative control: Flush overwrites an existing file
          BigByFold            \* TRUE: the big writer's file is computed by the sorted-stream fold (model checking);
                               \* FALSE: by FileOf directly (trace validation of large datasets: the fold is quadratic;
                               \* MC_Core / MC_Lib establish BigFileOf = FileOf)

VARIABLES w,      \* w[p]     : writer targeting path p: [kind, rows, done]
          files,  \* files[p] : [kind : "absent" | "index" | "other", f : file contents, ver : content version]
          ix,     \* ix[p]    : index handle on p: [open, mode, f]
          qobj,   \* qobj[i]  : caller-held Query objects: [e, gb, scratch]
          resp    \* response of the last call
vars == <<w, files, ix, qobj, resp>>

EmptyF   == [schema |-> <<>>, n |-> 0, V |-> <<>>]
NoWriter == [kind |-> "none", rows |-> <<>>, done |-> FALSE]
Absent   == [kind |-> "absent", f |-> EmptyF, ver |-> 0]
Closed   == [open |-> FALSE, mode |-> "none", f |-> EmptyF, obs |-> 0]
R(k)     == [kind |-> k]

Init == /\ w = [p \in Paths |-> NoWriter]
        /\ files = [p \in Paths |-> Absent]
        /\ ix = [p \in Paths |-> Closed]
        /\ qobj = <<>>
        /\ resp = R("init")

\* start of a new, independent scenario (trace validation concatenates many runs)
Reset == /\ w' = [p \in Paths |-> NoWriter]
         /\ files' = [p \in Paths |-> Absent]
         /\ ix' = [p \in Paths |-> Closed]
         /\ qobj' = <<>>
         /\ resp' = R("init")

WriterFile(wr) == IF wr.kind = "big" /\ BigByFold THEN BigFileOf(wr.rows, DropLastBitmap) ELSE FileOf(wr.rows)

(* A pre-existing file that is not an index (arbitrary bytes, empty, read-only ...). *)
PlantOther(p) ==
  /\ files[p].kind = "absent" /\ w[p].kind = "none"
  /\ files' = [files EXCEPT ![p] = [kind |-> "other", f |-> EmptyF, ver |-> 1]]
  /\ resp' = R("plant")
  /\ UNCHANGED <<w, ix, qobj>>

(* NewIndexWriter never touches the file system; the big writer's output DB is created   *)
(* (exclusively) by the caller before the writer exists, so the path becomes "other"     *)
(* (an empty bbolt file) right away, or creation fails and nothing changes.              *)
NewWriter(p, kind) ==
  /\ w[p].kind = "none"
  /\ IF kind = "big"
     THEN IF files[p].kind = "absent"
          THEN /\ w' = [w EXCEPT ![p] = [kind |-> kind, rows |-> <<>>, done |-> FALSE]]
               /\ files' = [files EXCEPT ![p] = [kind |-> "other", f |-> EmptyF, ver |-> 1]]
               /\ resp' = [kind |-> "newwriter", ok |-> TRUE]
          ELSE /\ resp' = [kind |-> "newwriter", ok |-> FALSE] /\ UNCHANGED <<w, files>>
     ELSE /\ w' = [w EXCEPT ![p] = [kind |-> kind, rows |-> <<>>, done |-> FALSE]]
          /\ resp' = [kind |-> "newwriter", ok |-> TRUE] /\ UNCHANGED files
  /\ UNCHANGED <<ix, qobj>>

AddRow(p, r) ==
  /\ w[p].kind # "none" /\ ~w[p].done
  /\ w' = [w EXCEPT ![p].rows = Append(@, r)]
  /\ resp' = [kind |-> "addrow", id |-> Len(w[p].rows)]          \* ids 0,1,2,... in call order
  /\ UNCHANGED <<files, ix, qobj>>

(* The caller gives up on a writer that has not produced its file (Go garbage-collects it). *)
DropWriter(p) ==
  /\ w[p].kind # "none" /\ ~w[p].done
  /\ w' = [w EXCEPT ![p] = NoWriter]
  /\ resp' = R("dropwriter")
  /\ UNCHANGED <<files, ix, qobj>>

Flush(p) ==
  /\ w[p].kind # "none" /\ ~w[p].done
  /\ LET mayWrite == IF w[p].kind = "big" THEN TRUE       \* it created the output itself
                     ELSE files[p].kind = "absent" \/ ClobberOnFlush IN
     IF mayWrite
     THEN /\ files' = [files EXCEPT ![p] = [kind |-> "index", f |-> WriterFile(w[p]), ver |-> @.ver + 1]]
          /\ w' = [w EXCEPT ![p].done = TRUE]
          /\ resp' = [kind |-> "flush", ok |-> TRUE]
     ELSE /\ resp' = [kind |-> "flush", ok |-> FALSE]
          /\ UNCHANGED <<files, w>>
  /\ UNCHANGED <<ix, qobj>>

Open(p, mode) ==
  /\ ~ix[p].open
  /\ IF files[p].kind = "index"
     THEN /\ ix' = [ix EXCEPT ![p] = [open |-> TRUE, mode |-> mode, f |-> files[p].f, obs |-> 0]]
          /\ resp' = [kind |-> "open", ok |-> TRUE]
     ELSE /\ resp' = [kind |-> "open", ok |-> FALSE] /\ UNCHANGED ix
  /\ UNCHANGED <<w, files, qobj>>

Close(p) ==
  /\ ix' = [ix EXCEPT ![p] = Closed]                      \* idempotent
  /\ resp' = R("close")
  /\ UNCHANGED <<w, files, qobj>>

GetSchema(p) ==
  /\ ix[p].open
  /\ resp' = [kind |-> "schema", p |-> p, schema |-> ix[p].f.schema]
  /\ UNCHANGED <<w, files, ix, qobj>>

NewQuery(e, gb) ==
  /\ qobj' = Append(qobj, [e |-> e, gb |-> gb, scratch |-> <<>>])
  /\ resp' = R("newquery")
  /\ UNCHANGED <<w, files, ix>>

(* Execute with a caller-held Query object.  The group-by columns are resolved against   *)
(* the schema into scratch storage; in the repaired code that storage is local to the    *)
(* call, in the code as found it lives in the Query and is appended to on every call.    *)
Exec(p, i) ==
  /\ ix[p].open /\ i \in DOMAIN qobj
  /\ LET q   == qobj[i]
         eff == IF KeepGroupByScratch THEN q.scratch \o q.gb ELSE q.gb
         ok  == Range(q.gb) \subseteq DOMAIN ix[p].f.schema      \* resolution fails on an unknown column
     IN /\ resp' = [kind |-> "exec", p |-> p, e |-> q.e, gb |-> q.gb,
                    res |-> IF ok THEN ExecAlgo(ix[p].f, q.e, eff) ELSE ErrRes]
        /\ qobj' = IF KeepGroupByScratch /\ ok THEN [qobj EXCEPT ![i].scratch = eff] ELSE qobj
  /\ ix' = [ix EXCEPT ![p].obs = @ + 1]              \* IndexMetrics: exactly one observation per Execute, also on error
  /\ UNCHANGED <<w, files>>

(* One-shot form used by most drivers: a fresh Query per call. *)
ExecFresh(p, e, gb) ==
  /\ ix[p].open
  /\ resp' = [kind |-> "exec", p |-> p, e |-> e, gb |-> gb, res |-> ExecAlgo(ix[p].f, e, gb)]
  /\ ix' = [ix EXCEPT ![p].obs = @ + 1]
  /\ UNCHANGED <<w, files, qobj>>

(* ------------------------------ properties ------------------------------ *)
\* C01 + C02: every answer is the declarative one for the rows that were added
AnswersCorrect == resp.kind = "exec" => resp.res = ExecSpec(w[resp.p].rows, resp.e, resp.gb)
\* C08: ... also through a re-used Query object, whose visible fields never change
QueryObjectsStable == [][\A i \in DOMAIN qobj : qobj'[i].e = qobj[i].e /\ qobj'[i].gb = qobj[i].gb]_vars
\* C05
SchemaCorrect == resp.kind = "schema" => resp.schema = SchemaOf(w[resp.p].rows)
RoundTrip == \A p \in Paths : ix[p].open => ix[p].f = FileOf(w[p].rows)
\* the ExecuteDuration metric of an open handle has seen exactly one observation per Execute call (ix[p].obs)
WritersAgreeLib == \A p \in Paths : files[p].kind = "index" => files[p].f = FileOf(w[p].rows)
\* C16: only a successful Flush / creating the big writer's output / planting changes a file
ReadOnlyOps == [][files' # files => resp'.kind \in {"flush", "newwriter", "plant"}]_vars
NoClobber == [][\A p \in Paths : (files[p].kind # "absent" /\ w[p].kind # "big") => files'[p] = files[p]]_vars
=============================================================================
