------------------------------ MODULE Trace_Crash ------------------------------
(* Trace validation for C06.  A verif hook after every tx.Commit() copies the output file  *)
(* (quiescent at that instant); each snapshot is projected by reading the raw bbolt file   *)
(* (Snap) and must be the result of one of UpdogCrash's commit actions; opening the        *)
(* snapshot with the real OpenIndex (CrashOpen) must be absent / rejected / opened-and-    *)
(* answering-like-the-complete-index exactly as the model state prescribes.  Kill: the     *)
(* process (updog create) was SIGKILLed at an unknown instant: any number of steps.        *)
EXTENDS UpdogCrash, TraceBase
tvars == <<cvars, l>>
TInit == TraceBaseInit /\ cfg = [total |-> 0, batch |-> 1, big |-> FALSE, occupied |-> FALSE] /\ file = NoFile /\ pc = "start" /\ alive = TRUE
TBegin == /\ IsEvent("Begin") /\ cfg' = [total |-> Ev.total, batch |-> Ev.batch, big |-> Ev.big, occupied |-> Ev.occupied]
          /\ file' = NoFile /\ pc' = "start" /\ alive' = TRUE
Proj == [exists |-> Ev.exists, bucket |-> Ev.bucket, header |-> Ev.header, nv |-> Ev.nv]
\* the snapshot is what exactly one commit action produces from the previous snapshot
TSnap == /\ IsEvent("Snap") /\ Ev.readable /\ ~Ev.torn
         /\ (CreateExcl \/ CommitBatch \/ TempCommit \/ CommitFinal)
         /\ file' = Proj
\* killed at an unknown instant: some number of steps happened; the observed file is the state reached
\* every file state some sequence of creation steps can leave behind
Reach == {NoFile, [NoFile EXCEPT !.exists = TRUE]}
         \cup {[exists |-> TRUE, bucket |-> TRUE, header |-> h, nv |-> n] : n \in 0..cfg.total, h \in {HeaderFirst}}
         \cup {[exists |-> TRUE, bucket |-> TRUE, header |-> TRUE, nv |-> cfg.total]}
TKill == /\ IsEvent("Kill") /\ Ev.readable /\ ~Ev.torn
         /\ Proj \in Reach /\ (cfg.big => (Proj.nv = 0 \/ Proj.nv = cfg.total))
         /\ file' = Proj /\ alive' = FALSE /\ UNCHANGED <<cfg, pc>>
TCrashOpen == /\ IsEvent("CrashOpen")
              /\ Ev.outcome = ExpectedOpen(file)                \* never panic / hang, never accepted when incomplete
              /\ (Ev.outcome = "opened" => (Ev.same /\ file.nv = cfg.total))
              /\ UNCHANGED cvars
\* the output path was occupied by a complete index: the writer's Flush reports an error, no transaction of it committed
\* (no Snap event can follow: CreateExcl is disabled), the occupant's bytes are unchanged
TRefused == /\ IsEvent("Refused") /\ Refuse
            /\ Ev.failed /\ Ev.commits = 0 /\ Ev.unchanged
TNext == TBegin \/ TSnap \/ TKill \/ TCrashOpen \/ TRefused
TSpec == TInit /\ [][TNext]_tvars
=============================================================================
