------------------------------ MODULE MC_Conc ------------------------------
EXTENDS UpdogConc
EQ(cc, v) == [op |-> "eq", col |-> cc, val |-> v]
NOTe(x) == [op |-> "not", e |-> x]
A == EQ(1, 1)  B == EQ(2, 1)  C == EQ(1, 2)
RowsDef == <<(1 :> 1 @@ 2 :> 1), (1 :> 1 @@ 2 :> 2), (1 :> 2 @@ 2 :> 1), (1 :> 2), (2 :> 2), <<>>>>
\* overlapping sub-expressions: hits, misses and evictions of other threads' entries in flight
Q1 == [op |-> "and", es |-> <<NOTe(B), [op |-> "or", es |-> <<A, C>>]>>]
Q2 == NOTe([op |-> "and", es |-> <<A, B>>])
Q3 == [op |-> "or", es |-> <<A, NOTe(B)>>]
Q4 == [op |-> "and", es |-> <<[op |-> "or", es |-> <<A, C>>], NOTe(B)>>]
QueryOfDef == (1 :> Q1 @@ 2 :> Q2 @@ 3 :> Q3 @@ 4 :> Q4)

=============================================================================
