------------------------------ MODULE UpdogSys ------------------------------
(***************************************************************************)
(* The deployed system, at the grain of one command line per step: one     *)
(* output path on disk, at most one `updog server` process, and a terminal *)
(* that shows the exit status and the standard output of the last command. *)
(* It composes what the other modules specify piecewise: `updog create`    *)
(* (UpdogCLI), the library (UpdogCore), the gRPC service (UpdogRPC), the    *)
(* text query language (UpdogQL) and the sql driver (UpdogStmt), and adds   *)
(* what only exists at this level: the server answers from the index as it *)
(* was when the server started (removing or re-creating the file later     *)
(* changes nothing for it), `updog client` parses every query before it    *)
(* connects, `updog driver` prints one table per query and stops at the    *)
(* first failing one, `updog schema` prints the schema.                    *)
(*                                                                         *)
(* A CSV is abstract here ([rows, defect]; header normalisation and field  *)
(* quoting are UpdogCLI's business); every row of a CSV has every column.   *)
(* A command-line query is [kind |-> "q", e, gb] or [kind |-> "syntax"]     *)
(* (a text the grammar rejects).                                            *)
(***************************************************************************)
EXTENDS UpdogCore

CONSTANTS ServerFollowsFile    \* negative control: the server re-reads the path for every request

VARIABLES file,     \* [kind : "absent" | "index" | "other", rows, gen] : gen tells files created at different times apart
          srv,      \* [up, rows, gen, cache, preload, execs] : the server process, the rows it loaded, the file it holds open,
                    \* and the number of Execute calls it has made (its /metrics page shows it)
          term      \* [cmd, exit, out] : what the terminal shows after the last command

AbsentF == [kind |-> "absent", rows |-> <<>>, gen |-> 0]
Down    == [up |-> FALSE, rows |-> <<>>, gen |-> 0, cache |-> FALSE, preload |-> FALSE, execs |-> 0]
T(c, x, o) == [cmd |-> c, exit |-> x, out |-> o, args |-> <<>>]
TA(c, x, o, a) == [cmd |-> c, exit |-> x, out |-> o, args |-> a]

VARIABLE gens       \* number of files created so far
svars == <<file, srv, term, gens>>
SInit == file = AbsentF /\ srv = Down /\ term = T("none", 0, <<>>) /\ gens = 0

(* An open index holds bbolt's exclusive lock on the file (OpenIndex opens read-write): while the server runs, every   *)
(* other command that opens the same file waits -- it does not return before the server stops (exit "status" 2 here). *)
(* A file created at the path after the served one was removed is a different file and is not locked.               *)
Locked == srv.up /\ file.kind = "index" /\ file.gen = srv.gen
Blocked == 2

(* ------------------------------ what the commands print ------------------------------ *)
\* updog client: one block per query: id (1-based position), total count, groups
ClientBlock(i, res) == [id |-> i, count |-> res.count, groups |-> res.groups]
\* updog driver: one table per query: header = group-by columns then "count"; rows as UpdogStmt.RowsOf
DriverTable(res, gb) ==
  [header |-> gb, rows |-> IF gb # <<>> THEN [i \in DOMAIN res.groups |-> Append(res.groups[i].vals, res.groups[i].count)]
                           ELSE <<<<res.count>>>>]
\* updog schema: columns in ascending order with the number of distinct values; --full: every (column, value)
SchemaTable(rows, full) ==
  LET cols == SetToSortSeq(Cols(rows), <) IN
  IF full THEN FlattenSeq([k \in DOMAIN cols |-> LET vs == SetToSortSeq(Vals(rows, cols[k]), <) IN [j \in DOMAIN vs |-> <<cols[k], vs[j]>>]])
  ELSE [k \in DOMAIN cols |-> <<cols[k], Cardinality(Vals(rows, cols[k]))>>]

Answer(rows, q) == IF q.kind = "syntax" THEN ErrRes ELSE ExecSpec(rows, q.e, q.gb)

(* ------------------------------ commands ------------------------------ *)
\* updog create [-b] -o path in.csv  (UpdogCLI.CreateOutcomes, on abstract CSVs)
Create(csv, big) ==
  /\ \/ /\ file.kind # "absent"
        /\ file' = file /\ term' = T("create", 1, <<>>)
     \/ /\ file.kind = "absent" /\ csv.defect
        /\ term' = T("create", 1, <<>>)
        /\ file' \in {AbsentF} \cup (IF big THEN {[kind |-> "other", rows |-> <<>>, gen |-> gens + 1]} ELSE {})
     \/ /\ file.kind = "absent" /\ ~csv.defect
        /\ file' = [kind |-> "index", rows |-> csv.rows, gen |-> gens + 1] /\ term' = T("create", 0, <<>>)
  /\ gens' = IF file'.kind # "absent" /\ file' # file THEN gens + 1 ELSE gens
  /\ UNCHANGED srv

\* rm path : a running server keeps its open file
RemoveFile == file.kind # "absent" /\ file' = AbsentF /\ term' = T("rm", 0, <<>>) /\ UNCHANGED <<srv, gens>>

\* something that is not an index appears at the path
PlantJunk == file.kind = "absent" /\ file' = [kind |-> "other", rows |-> <<>>, gen |-> gens + 1] /\ gens' = gens + 1 /\ term' = T("junk", 0, <<>>) /\ UNCHANGED srv

Schema(full) ==
  /\ term' = IF Locked THEN T("schema", Blocked, <<>>)
             ELSE IF file.kind = "index" THEN T("schema", 0, SchemaTable(file.rows, full)) ELSE T("schema", 1, <<>>)
  /\ UNCHANGED <<file, srv, gens>>

\* updog server -f path : loads the index once; exits with status 1 when the path holds no index
ServerStart(cache, preload) ==
  /\ ~srv.up
  /\ IF file.kind = "index"
     THEN srv' = [up |-> TRUE, rows |-> file.rows, gen |-> file.gen, cache |-> cache, preload |-> preload, execs |-> 0] /\ term' = T("server", 0, <<>>)
     ELSE srv' = srv /\ term' = T("server", 1, <<>>)
  /\ UNCHANGED <<file, gens>>
ServerStop == srv.up /\ srv' = Down /\ term' = T("stop", 0, <<>>) /\ UNCHANGED <<file, gens>>

Served == IF ServerFollowsFile THEN file.rows ELSE srv.rows

\* the server executes the queries of a batch in order and stops at the first one that fails
Executed(rows, qs) == LET bad == {i \in DOMAIN qs : ~Answer(rows, qs[i]).ok} IN
                      IF bad = {} THEN Len(qs) ELSE CHOOSE i \in bad : \A j \in bad : i <= j

\* updog client q1 q2 ... : all queries are parsed first; one failing query fails the whole call, nothing is printed
Client(qs) ==
  /\ LET ok == /\ qs # <<>> /\ \A i \in DOMAIN qs : qs[i].kind = "q"
               /\ srv.up /\ \A i \in DOMAIN qs : Answer(Served, qs[i]).ok
         sent == qs # <<>> /\ (\A i \in DOMAIN qs : qs[i].kind = "q") /\ srv.up     \* the batch reaches the server
     IN /\ term' = IF ok THEN TA("client", 0, [i \in DOMAIN qs |-> ClientBlock(i, Answer(Served, qs[i]))], qs) ELSE TA("client", 1, <<>>, qs)
        /\ srv' = IF sent THEN [srv EXCEPT !.execs = @ + Executed(Served, qs)] ELSE srv
  /\ UNCHANGED <<file, gens>>

\* updog driver -d dsn q1 q2 ... : one table per query, in order, up to the first failing query
Good(rows, usable, qs) == {n \in 0..Len(qs) : \A i \in 1..n : usable /\ Answer(rows, qs[i]).ok}
Driver(via, qs) ==
  /\ LET usable == IF via = "file" THEN file.kind = "index" ELSE srv.up
         rows   == IF via = "file" THEN file.rows ELSE Served
         n      == CHOOSE m \in Good(rows, usable, qs) : \A k \in Good(rows, usable, qs) : k <= m
     IN /\ term' = IF via = "file" /\ Locked /\ qs # <<>>        \* the connection is opened (and waits) before the first query is parsed
                THEN TA("driver", Blocked, <<>>, [via |-> via, qs |-> qs])
                ELSE TA("driver", IF qs # <<>> /\ n = Len(qs) THEN 0 ELSE 1,
                        [i \in 1..n |-> DriverTable(Answer(rows, qs[i]), qs[i].gb)], [via |-> via, qs |-> qs])
        \* over gRPC every query is one request; a query the driver cannot parse is never sent
        /\ srv' = IF via = "grpc" /\ srv.up
                  THEN [srv EXCEPT !.execs = @ + n + (IF n < Len(qs) /\ qs[n + 1].kind = "q" THEN 1 ELSE 0)]
                  ELSE srv
  /\ UNCHANGED <<file, gens>>

\* GET /metrics on the server's debug address: the Execute histogram has counted every Execute call; the four cache
\* counters exist exactly when the cache is enabled
Metrics ==
  /\ term' = IF srv.up THEN T("metrics", 0, [execs |-> srv.execs, cache |-> srv.cache]) ELSE T("metrics", 1, <<>>)
  /\ UNCHANGED <<file, srv, gens>>

(* ------------------------------ properties ------------------------------ *)
\* only create (onto an absent path), rm and planting change the path; nothing ever changes an existing index in place
OnlyCreateWrites == [][file' # file => term'.cmd \in {"create", "rm", "junk"}]_svars
NeverInPlace     == [][file.kind = "index" /\ file'.kind = "index" => file' = file]_svars
\* the server answers from its snapshot: what the client prints after exit status 0 is the declarative answer over the rows
\* the server loaded, whatever happened to the path since
ClientAnswersSnapshot ==
  (term.cmd = "client" /\ term.exit = 0) =>
     /\ srv.up /\ Len(term.out) = Len(term.args)
     /\ \A i \in DOMAIN term.out : term.out[i] = ClientBlock(i, ExecSpec(srv.rows, term.args[i].e, term.args[i].gb))
\* the two routes of `updog driver` print the same tables as long as the path still holds what the server loaded
DriverAnswers ==
  (term.cmd = "driver" /\ term.args.via = "grpc" /\ Len(term.out) > 0) =>
     srv.up /\ \A i \in DOMAIN term.out : term.out[i] = DriverTable(ExecSpec(srv.rows, term.args.qs[i].e, term.args.qs[i].gb), term.args.qs[i].gb)
ExitStatus == term.exit \in {0, 1, Blocked}
\* the Execute counter of a running server never goes back
ExecsMonotone == [][(srv.up /\ srv'.up) => srv'.execs >= srv.execs]_svars
\* nobody waits for a lock unless a server is running
BlockedOnlyByServer == term.exit = Blocked => srv.up
=============================================================================
