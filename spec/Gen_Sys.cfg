SPECIFICATION GSpec
CONSTANTS
  MaxSteps = 6
  Emit = TRUE
  ServerFollowsFile = FALSE
INVARIANTS EmitHist
CHECK_DEADLOCK FALSE
