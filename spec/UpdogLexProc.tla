------------------------------ MODULE UpdogLexProc ------------------------------
(***************************************************************************)
(* The lexer goroutine, the unbuffered items channel and the parser as two *)
(* processes (C09: ParseQuery leaves no goroutine behind).  The lexer      *)
(* wants to send E items (the last one is EOF or an error item) and then   *)
(* closes the channel; the parser receives C <= E items (it stops early on *)
(* a syntax error, or right at EOF) and returns.  A send on an unbuffered  *)
(* channel completes only together with a receive.  Repaired design: when  *)
(* ParseQuery returns, it drains the channel until it is closed.           *)
(***************************************************************************)
EXTENDS Naturals

CONSTANTS MaxItems,
          NoDrain        \* negative control (code as found): nobody receives after the parser returned

VARIABLES E, C,          \* items the lexer emits / the parser consumes
          sent,          \* items transferred so far
          lexer,         \* "running" | "done"
          parser         \* "parsing" | "draining" | "returned"
vars == <<E, C, sent, lexer, parser>>

Init == /\ E \in 1..MaxItems /\ C \in 0..E
        /\ sent = 0 /\ lexer = "running" /\ parser = "parsing"
\* rendezvous: the lexer's send and a receive (by the parser, or by the drain loop)
Transfer == /\ lexer = "running" /\ sent < E
            /\ ((parser = "parsing" /\ sent < C) \/ parser = "draining")
            /\ sent' = sent + 1 /\ UNCHANGED <<E, C, lexer, parser>>
LexExit == lexer = "running" /\ sent = E /\ lexer' = "done" /\ UNCHANGED <<E, C, sent, parser>>      \* close(items)
ParserReturn == /\ parser = "parsing" /\ sent >= C
                /\ parser' = (IF NoDrain THEN "returned" ELSE "draining") /\ UNCHANGED <<E, C, sent, lexer>>
DrainEnd == parser = "draining" /\ lexer = "done" /\ parser' = "returned" /\ UNCHANGED <<E, C, sent, lexer>>
Next == Transfer \/ LexExit \/ ParserReturn \/ DrainEnd
Spec == Init /\ [][Next]_vars /\ WF_vars(Next)

Termination == <>(lexer = "done" /\ parser = "returned")
\* ParseQuery has returned => the lexer goroutine is gone
NoLeak == parser = "returned" => (NoDrain \/ lexer = "done")
=============================================================================
