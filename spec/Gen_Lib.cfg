SPECIFICATION Spec
CONSTANTS
  MaxRows = 2
  DCols = {1, 2}
  DVals = {1, 2}
  QCols = {1, 2, 3}
  QVals = {1, 2, 3}
  MaxGB = 2
  Depth2 = FALSE
  DropLastBitmap = FALSE
  NotOffByOne = FALSE
  WithUnique = FALSE
  GenSel = "count"
INVARIANTS EmitQueries EmitDS
CHECK_DEADLOCK FALSE
