------------------------------ MODULE UpdogStore ------------------------------
(***************************************************************************)
(* Opening index files (C15) at the grain of the validation steps of        *)
(* OpenIndex / OpenIndexFromBoltDatabase, with the exclusive file lock      *)
(* (bbolt's flock) as a variable.  A bbolt file is described by its parts:  *)
(*   bucket : the "data" bucket exists                                      *)
(*   S : schema entry  "ok" | "missing" | "garbage"                         *)
(*   I : row counter   "ok" | "missing" | "short" | "long"                  *)
(*   V : bitmaps       "ok" | "garbage" (one undecodable bitmap)            *)
(* A path may also not exist ("absent").                                    *)
(***************************************************************************)
EXTENDS Naturals, Sequences, FiniteSets, TLC

CONSTANTS Paths,
          KeepLockOnFailure,    \* negative control (code as found): a failing open keeps the file locked
          NoBucketCheck         \* negative control (code as found): a missing bucket is dereferenced (panic)

VARIABLES fsx,     \* fsx[p] = [exists, bucket, S, I, V]
          flock,   \* flock[p] \in {"free", "held"}
          hnd,     \* hnd[p] = "none" | "open" | "closed"   (state of the one Index value the caller holds for p)
          out      \* outcome of the last call: "ok" | "err" | "panic" | "hang" | "init"
svars == <<fsx, flock, hnd, out>>

FileVariants == [exists : {TRUE}, bucket : BOOLEAN, S : {"ok", "missing", "garbage"},
                 I : {"ok", "missing", "short", "long"}, V : {"ok", "garbage"}]
AbsentFile == [exists |-> FALSE, bucket |-> FALSE, S |-> "missing", I |-> "missing", V |-> "ok"]
\* without a bucket there are no entries
Consistent(f) == f.bucket \/ (f.S = "missing" /\ f.I = "missing" /\ f.V = "ok")

OpensOK(f, preload) == f.exists /\ f.bucket /\ f.S = "ok" /\ f.I = "ok" /\ (preload => f.V = "ok")

\* OpenIndex(p, opts): opts = [preload, cache]
Open(p, preload) ==
  /\ hnd[p] # "open"
  /\ IF ~fsx[p].exists
     THEN out' = "err" /\ UNCHANGED <<fsx, flock, hnd>>                \* no O_CREATE: fails, creates nothing
     ELSE IF flock[p] = "held"
          THEN out' = "hang" /\ UNCHANGED <<fsx, flock, hnd>>          \* bbolt blocks on the flock without a timeout
          ELSE IF NoBucketCheck /\ ~fsx[p].bucket
               THEN out' = "panic" /\ flock' = [flock EXCEPT ![p] = "held"] /\ UNCHANGED <<fsx, hnd>>
               ELSE IF OpensOK(fsx[p], preload)
                    THEN out' = "ok" /\ flock' = [flock EXCEPT ![p] = "held"] /\ hnd' = [hnd EXCEPT ![p] = "open"] /\ UNCHANGED fsx
                    ELSE /\ out' = "err"
                         /\ flock' = [flock EXCEPT ![p] = IF KeepLockOnFailure THEN "held" ELSE "free"]
                         /\ UNCHANGED <<fsx, hnd>>
Close(p) ==
  /\ hnd[p] \in {"open", "closed"}                                      \* Close may be called more than once
  /\ out' = "ok"
  /\ flock' = [flock EXCEPT ![p] = IF hnd[p] = "open" THEN "free" ELSE @]
  /\ hnd' = [hnd EXCEPT ![p] = "closed"]
  /\ UNCHANGED fsx

\* C15
NoPanicNoHang == out \notin {"panic", "hang"}
LockFreeWhenNoHandle == \A p \in Paths : hnd[p] # "open" => flock[p] = "free"
NothingCreated == [][\A p \in Paths : fsx'[p] = fsx[p]]_svars
=============================================================================
