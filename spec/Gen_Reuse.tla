------------------------------ MODULE Gen_Reuse ------------------------------
(* Behaviour generator for C08: two open indexes over different datasets, three caller-   *)
(* held Query objects (with group-by lists; column 3 is unknown to the second index);     *)
(* every sequence of MaxSteps executions Exec(p, i) with the response the specification   *)
(* prescribes after each step.  vdrive replay-reuse executes the same sequence with real  *)
(* *updog.Query values that are re-used across steps and indexes.                          *)
EXTENDS UpdogLib, Json

CONSTANT MaxSteps
VARIABLE hist
gvars == <<vars, hist>>

R1 == <<(1 :> 1 @@ 2 :> 1 @@ 3 :> 1), (1 :> 1 @@ 2 :> 2), (1 :> 2 @@ 2 :> 1 @@ 3 :> 2), (2 :> 2), <<>>, (1 :> 1 @@ 2 :> 1 @@ 3 :> 2)>>
R2 == <<(1 :> 2 @@ 2 :> 2), (1 :> 1 @@ 2 :> 2), (1 :> 2)>>
EQ(c, v) == [op |-> "eq", col |-> c, val |-> v]
Qs == << [e |-> [op |-> "not", e |-> EQ(1, 2)], gb |-> <<2>>],
         [e |-> [op |-> "or", es |-> <<EQ(1, 1), EQ(2, 2)>>], gb |-> <<1, 2>>],
         [e |-> EQ(1, 1), gb |-> <<3, 1>>],
         [e |-> [op |-> "and", es |-> <<EQ(2, 1), [op |-> "not", e |-> EQ(3, 1)]>>], gb |-> <<>>] >>

GInit == /\ w = (1 :> [kind |-> "mem", rows |-> R1, done |-> TRUE] @@ 2 :> [kind |-> "big", rows |-> R2, done |-> TRUE])
         /\ files = (1 :> [kind |-> "index", f |-> FileOf(R1), ver |-> 1] @@ 2 :> [kind |-> "index", f |-> FileOf(R2), ver |-> 1])
         /\ ix = (1 :> [open |-> TRUE, mode |-> "ondemand", f |-> FileOf(R1), obs |-> 0] @@ 2 :> [open |-> TRUE, mode |-> "preload", f |-> FileOf(R2), obs |-> 0])
         /\ qobj = [i \in DOMAIN Qs |-> [e |-> Qs[i].e, gb |-> Qs[i].gb, scratch |-> <<>>]]
         /\ resp = R("init")
         /\ hist = <<>>
GNext == /\ Len(hist) < MaxSteps
         /\ \E p \in Paths : \E i \in DOMAIN qobj :
              /\ Exec(p, i)
              /\ hist' = Append(hist, [p |-> p, q |-> i, res |-> resp'.res])
GSpec == GInit /\ [][GNext]_gvars

PairLT(a, b) == a[1] < b[1]
RowPairs(r) == SetToSortSeq({<<c, r[c]>> : c \in DOMAIN r}, PairLT)
EmitSetup == hist = <<>> => PrintT(ToJson([tag |-> "setup",
                 data |-> << [i \in DOMAIN R1 |-> RowPairs(R1[i])], [i \in DOMAIN R2 |-> RowPairs(R2[i])] >>,
                 qs |-> Qs]))
EmitHist == Len(hist) = MaxSteps => PrintT(ToJson([tag |-> "beh", steps |-> hist]))
=============================================================================
