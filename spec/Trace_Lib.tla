------------------------------ MODULE Trace_Lib ------------------------------
(* Trace validation of the library family: every recorded call of the real code must be   *)
(* the corresponding UpdogLib action with the logged arguments and the logged outcome.    *)
EXTENDS UpdogLib, UpdogDict, TraceBase

VARIABLES hid,      \* hid[p]: identity (harness-assigned number of the SHA-256) of path p's bytes as last observed
          dictOK
tvars == <<vars, l, hid, dictOK>>

RowOf(pairs) == [c \in {pairs[i][1] : i \in DOMAIN pairs} |->
                   pairs[CHOOSE i \in DOMAIN pairs : pairs[i][1] = c][2]]
SchemaSeqOf(s) == LET cs == SetToSortSeq(DOMAIN s, <) IN
                  [i \in DOMAIN cs |-> <<cs[i], SetToSortSeq(s[cs[i]], <)>>]

TInit == TraceBaseInit /\ Init /\ hid = [p \in Paths |-> 0] /\ dictOK = TRUE

\* the bytes of p changed iff the specification says the file changed; fh = -1: not measured
HashOK(p) == /\ (Ev.fh # -1 /\ files'[p] = files[p] /\ hid[p] # -1) => Ev.fh = hid[p]
             /\ hid' = [hid EXCEPT ![p] = Ev.fh]

TReset == IsEvent("Reset") /\ Reset /\ hid' = [p \in Paths |-> 0] /\ dictOK' = TRUE
TDict == /\ IsEvent("Dict")
         /\ dictOK' = TRUE
         /\ (StrictlyIncreasing(Ev.cols) /\ StrictlyIncreasing(Ev.vals) /\ \A i \in DOMAIN Ev.cols : NoNUL(Ev.cols[i]))
         /\ UNCHANGED <<vars, hid>>
TPlant == IsEvent("Plant") /\ PlantOther(Ev.p) /\ hid' = [hid EXCEPT ![Ev.p] = Ev.fh] /\ UNCHANGED dictOK
TNewWriter == IsEvent("NewWriter") /\ NewWriter(Ev.p, Ev.kind) /\ resp'.ok = Ev.ok /\ HashOK(Ev.p) /\ UNCHANGED dictOK

\* AddRows = the composition of Len(rows) AddRow steps; the returned ids must be the next ones in order
TAddRows == /\ IsEvent("AddRows")
            /\ LET p == Ev.p  rs == [i \in DOMAIN Ev.rows |-> RowOf(Ev.rows[i])] IN
               /\ w[p].kind # "none" /\ ~w[p].done
               /\ \A j \in DOMAIN Ev.ids : Ev.ids[j] = Len(w[p].rows) + j - 1
               /\ Len(Ev.ids) = Len(rs)
               /\ w' = [w EXCEPT ![p].rows = @ \o rs]
               /\ resp' = [kind |-> "addrow", id |-> Len(w[p].rows) + Len(rs) - 1]
            /\ UNCHANGED <<files, ix, qobj, hid, dictOK>>
TDropWriter == IsEvent("DropWriter") /\ DropWriter(Ev.p) /\ UNCHANGED <<hid, dictOK>>
\* rows added concurrently: the returned ids must be exactly the next n ids, each once; the index is
\* the one a sequential insertion in id order produces (C18)
TConcAddRows == /\ IsEvent("ConcAddRows")
                /\ LET p == Ev.p  items == Ev.items  n == Len(items)  base == Len(w[p].rows)
                       ids == {items[i][1] : i \in DOMAIN items} IN
                   /\ w[p].kind # "none" /\ ~w[p].done
                   /\ ids = base..(base + n - 1)
                   /\ w' = [w EXCEPT ![p].rows = @ \o [j \in 1..n |-> RowOf(items[CHOOSE i \in DOMAIN items : items[i][1] = base + j - 1][2])]]
                   /\ resp' = [kind |-> "addrow", id |-> base + n - 1]
                /\ UNCHANGED <<files, ix, qobj, hid, dictOK>>
TFlush == IsEvent("Flush") /\ ~Ev.hang /\ Flush(Ev.p) /\ resp'.ok = Ev.ok /\ HashOK(Ev.p) /\ UNCHANGED dictOK   \* returns (ok or error), never hangs
\* another writer's Flush to the same path while this path's writer is in the middle of its own Flush: the path
\* exists by then (exclusive creation), so the other Flush must fail and change nothing
TFlushOverlap == IsEvent("FlushOverlap") /\ w[Ev.p].kind # "none" /\ ~w[Ev.p].done /\ Ev.ok = FALSE /\ ~Ev.hang /\ UNCHANGED <<vars, hid, dictOK>>
TOpen == IsEvent("Open") /\ Open(Ev.p, Ev.mode) /\ resp'.ok = Ev.ok /\ HashOK(Ev.p) /\ UNCHANGED dictOK
TClose == IsEvent("Close") /\ Close(Ev.p) /\ HashOK(Ev.p) /\ UNCHANGED dictOK
TSchema == /\ IsEvent("Schema") /\ GetSchema(Ev.p) /\ SchemaSeqOf(resp'.schema) = Ev.cols
           /\ resp'.schema = SchemaOf(w[Ev.p].rows)
           /\ HashOK(Ev.p) /\ UNCHANGED dictOK
\* the logged answer must be the one the specification's evaluation gives, and (second, declarative
\* opinion in check form) the one the meaning of the expression over the added rows gives
TExec == /\ IsEvent("Exec") /\ ExecFresh(Ev.p, Ev.e, Ev.gb) /\ resp'.res = Ev.res
         /\ ResMatches(w[Ev.p].rows, Ev.e, Ev.gb, Ev.res)
         /\ HashOK(Ev.p) /\ UNCHANGED dictOK
\* the histogram handed to WithIndexMetrics has been called once per Execute since the handle was opened
TIndexMetrics == IsEvent("IndexMetrics") /\ ix[Ev.p].open /\ Ev.n = ix[Ev.p].obs /\ UNCHANGED <<vars, hid, dictOK>>
TNewQuery == IsEvent("NewQuery") /\ NewQuery(Ev.e, Ev.gb) /\ Len(qobj') = Ev.qid /\ UNCHANGED <<hid, dictOK>>
TExecQ == /\ IsEvent("ExecQ") /\ Exec(Ev.p, Ev.qid) /\ resp'.res = Ev.res /\ Ev.unchanged
          /\ ResMatches(w[Ev.p].rows, qobj[Ev.qid].e, qobj[Ev.qid].gb, Ev.res)
          /\ HashOK(Ev.p) /\ UNCHANGED dictOK

TNext == TReset \/ TDict \/ TPlant \/ TNewWriter \/ TDropWriter \/ TAddRows \/ TConcAddRows \/ TFlush \/ TFlushOverlap \/ TOpen \/ TClose \/ TSchema \/ TExec \/ TIndexMetrics \/ TNewQuery \/ TExecQ
TSpec == TInit /\ [][TNext]_tvars

\* (the properties are conjuncts of the trace actions, so a wrong answer stops the trace at that
\* line instead of making TLC print a counterexample of megabyte-sized states)
=============================================================================
