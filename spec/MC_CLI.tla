------------------------------ MODULE MC_CLI ------------------------------
(* Behaviours for C19: every CSV of the bounded universe (headers of 1..2 fields over five    *)
(* header-field shapes whose normalisations stay distinct; 0..MaxRecs records over six field  *)
(* classes; defects: ragged record, bare quote) x {normal, --big} x {output absent, junk,     *)
(* index}, with the exit status and output state the specification allows.                    *)
EXTENDS UpdogCLI, Integers, Json
CONSTANTS MaxRecs, Emit
HF == {<<"a">>, <<"A", "b">>, <<"b", "sp">>, <<"e", "a">>, <<"sp">>}
Headers == {h \in UNION {[1..k -> HF] : k \in 1..2} : Distinct(NormHeader(h))}
FieldVals == 1..8      \* 1 plain, 2 with quote, 3 with comma, 4 with newline, 5 non-ASCII, 6 empty, 7/8 values that make (column,value) concatenations coincide
RecsFor(h) == UNION {[1..n -> [1..Len(h) -> FieldVals]] : n \in 0..(IF Len(h) = 1 THEN MaxRecs ELSE 1)}
              \* two records under two columns over the plain value and the two values that make concatenations of a
              \* column name and a value coincide across columns (a + bplain = ab + plain)
              \cup (IF Len(h) = 2 THEN [1..2 -> [1..2 -> {1, 7, 8}]] ELSE {})
CSVs == UNION {{[header |-> h, records |-> r, defect |-> "none"] : r \in RecsFor(h)} : h \in Headers}
        \cup {[header |-> h, records |-> <<[j \in 1..Len(h) |-> 1], [j \in 1..Len(h) |-> 5]>>, defect |-> d] : h \in Headers, d \in {"ragged", "barequote"}}
Pre == {AbsentOut, [kind |-> "other", rows |-> <<>>], [kind |-> "index", rows |-> <<(<<2>> :> 1)>>]}

VARIABLES csvv, bigv, phase
mvars == <<clivars, csvv, bigv, phase>>
Init == csvv \in CSVs /\ bigv \in BOOLEAN /\ phase = 0 /\ \E p \in Pre : CLIInit(p)
Next == \/ phase = 0 /\ Create(csvv, bigv) /\ phase' = 1 /\ UNCHANGED <<csvv, bigv>>
        \/ phase = 1 /\ Schema /\ phase' = 2 /\ UNCHANGED <<csvv, bigv>>
Spec == Init /\ [][Next]_mvars
\* exit status 0 exactly when the output now is the index of the CSV's records
ExitOK == phase = 1 => (exit = 0 => (out.kind = "index" /\ csvv.defect = "none" /\ out.rows = RowsOfCSV(csvv)))
SchemaOK == phase = 2 => (exit = 0 <=> out.kind = "index")
PairLT(a, b) == LexLT(a[1], b[1]) \/ (Len(a[1]) < Len(b[1]) /\ a[1] = SubSeq(b[1], 1, Len(a[1])))
RowPairs(r) == SetToSeq({<<c, r[c]>> : c \in DOMAIN r})
EmitCase == (Emit /\ phase = 0) =>
   PrintT(ToJson([tag |-> "cli", header |-> csvv.header, norm |-> NormHeader(csvv.header), records |-> csvv.records, defect |-> csvv.defect,
                  big |-> bigv, pre |-> out.kind,
                  allowed |-> SetToSeq({[exit |-> o.exit, kind |-> o.out.kind, rows |-> [i \in DOMAIN o.out.rows |-> RowPairs(o.out.rows[i])]] : o \in CreateOutcomes(out, csvv, bigv)})]))
=============================================================================
