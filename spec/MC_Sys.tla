------------------------------ MODULE MC_Sys ------------------------------
(* Bounded instance of UpdogSys: three CSVs over two columns (one defective), six command-line    *)
(* queries (count, group-by, unknown column, syntax error), every command history of MaxSteps.    *)
(* With Emit = TRUE (simulation) each behaviour of MaxSteps commands is printed with the terminal *)
(* contents the specification prescribes after every command, for replay on the real binaries.   *)
EXTENDS UpdogSys, Integers, Json
CONSTANTS MaxSteps, Emit
R(a, b) == (1 :> a) @@ (2 :> b)
CSVs == { [rows |-> <<R(1, 1), R(1, 2), R(2, 2)>>, defect |-> FALSE],
          [rows |-> <<R(2, 3), R(2, 3), R(3, 1), R(1, 1)>>, defect |-> FALSE],
          [rows |-> <<>>, defect |-> FALSE],
          [rows |-> <<R(1, 1)>>, defect |-> TRUE] }
Eq(c, v) == [op |-> "eq", col |-> c, val |-> v]
Q(e, gb) == [kind |-> "q", e |-> e, gb |-> gb]
Queries == { Q(Eq(1, 1), <<>>), Q([op |-> "not", e |-> Eq(2, 2)], <<1>>), Q([op |-> "or", es |-> <<Eq(1, 2), Eq(2, 1)>>], <<2, 1>>),
             Q([op |-> "and", es |-> <<Eq(1, 1), [op |-> "not", e |-> Eq(2, 4)]>>], <<2>>),
             Q(Eq(3, 1), <<>>), Q(Eq(1, 1), <<3>>), [kind |-> "syntax"] }
GoodQ(q) == q.kind = "q" /\ ExprCols(q.e) \cup Range(q.gb) \subseteq {1, 2}
QLists == {<<q>> : q \in Queries} \cup {<<a, b>> \in Queries \X Queries : GoodQ(a) \/ GoodQ(b)} \cup {<<>>}

VARIABLES steps, hist, pick
mvars == <<svars, steps, hist, pick>>
H(r) == hist' = Append(hist, r @@ [t |-> term'])
Cmd(k) ==
  CASE k = "create" -> \E c \in CSVs, b \in BOOLEAN : Create(c, b) /\ H([cmd |-> "create", rows |-> c.rows, defect |-> c.defect, big |-> b, post |-> file'.kind])
    [] k = "rm"     -> RemoveFile /\ H([cmd |-> "rm"])
    [] k = "junk"   -> PlantJunk /\ H([cmd |-> "junk"])
    [] k = "schema" -> \E f \in BOOLEAN : Schema(f) /\ H([cmd |-> "schema", full |-> f])
    [] k = "server" -> \E c, p \in BOOLEAN : ServerStart(c, p) /\ H([cmd |-> "server", cache |-> c, preload |-> p])
    [] k = "stop"   -> ServerStop /\ H([cmd |-> "stop"])
    [] k = "metrics" -> Metrics /\ H([cmd |-> "metrics"])
    [] k = "client" -> \E qs \in QLists : Client(qs) /\ H([cmd |-> "client", qs |-> qs])
    [] k = "driver" -> \E v \in {"file", "grpc"}, qs \in QLists : Driver(v, qs) /\ H([cmd |-> "driver", via |-> v, qs |-> qs])
Kinds == {"create", "rm", "junk", "schema", "server", "stop", "client", "driver", "metrics"}
Enabled(k) == CASE k = "rm" -> file.kind # "absent" [] k = "junk" -> file.kind = "absent" [] k = "server" -> ~srv.up [] k = "stop" -> srv.up [] OTHER -> TRUE
Weight(k) == CASE k = "create" -> IF file.kind = "absent" THEN 3 ELSE 1
               [] k = "server" -> IF file.kind = "index" THEN 4 ELSE 1
    [] k = "client" -> IF srv.up THEN 4 ELSE 1
               [] k = "driver" -> IF srv.up \/ file.kind = "index" THEN 4 ELSE 1
               [] k = "schema" -> IF file.kind = "index" THEN 2 ELSE 1
               [] k = "metrics" -> IF srv.up /\ srv.execs > 0 THEN 2 ELSE 1
               [] OTHER -> 1
Init == SInit /\ steps = 0 /\ hist = <<>> /\ pick = <<>>
\* model checking: one command per step
Next == steps < MaxSteps /\ steps' = steps + 1 /\ pick' = pick /\ \E k \in Kinds : Cmd(k)
Spec == Init /\ [][Next]_mvars
\* generation by simulation: first the kind of command, then its arguments, so that every kind is drawn equally often
GNext == \/ pick = <<>> /\ steps < MaxSteps /\ pick' \in {<<k, i>> : k \in {x \in Kinds : Enabled(x)}, i \in 1..4} /\ pick'[2] <= Weight(pick'[1])
            /\ UNCHANGED <<svars, steps, hist>>
         \/ pick # <<>> /\ Cmd(pick[1]) /\ pick' = <<>> /\ steps' = steps + 1
GSpec == Init /\ [][GNext]_mvars
View == <<svars, steps>>
EmitHist == (Emit /\ steps = MaxSteps) => PrintT(ToJson([tag |-> "sys", steps |-> hist]))
=============================================================================
