SPECIFICATION TSpec
CONSTANTS
  OverheadMax = 256
  NoReaccountOnOverwrite = FALSE
  NoMoveToFrontOnGet = FALSE
  EvictFront = FALSE
  NoSubtractOnEvict = FALSE
CONSTRAINT HighWater
POSTCONDITION Accepted
CHECK_DEADLOCK FALSE
