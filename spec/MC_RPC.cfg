SPECIFICATION Spec
CONSTANTS
  MaxBatch = 2
  MaxReqs = 2
  Emit = FALSE
  NoNilCheck = FALSE
INVARIANTS NeverCrashes OneResultPerQueryInOrder NoPartialResponse EmitAll
CHECK_DEADLOCK FALSE
