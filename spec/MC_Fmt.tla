------------------------------ MODULE MC_Fmt ------------------------------
(* C10 at design level: for every tree of the universe (valid identifiers, AND/OR with >= 1  *)
(* operand, literals incl. a quote, placeholders) and every group-by list, the formatted text *)
(* parses, the parsed tree has the same normal form and group-by list, and format/parse is a  *)
(* fixpoint from the second round on.  With Emit the trees are printed for the real code.     *)
EXTENDS UpdogQL, Json
CONSTANTS Deep, Emit
L1 == [op |-> "eq", col |-> <<97>>, val |-> <<120>>, ph |-> 0]
L2 == [op |-> "eq", col |-> <<98, 95, 49>>, val |-> <<34, 32, 34, 34>>, ph |-> 0]      \* value  " ""
L3 == [op |-> "eq", col |-> <<99>>, val |-> <<>>, ph |-> 2]
Leaves == {L1, L2, L3}
Nary(S, n) == {[op |-> o, es |-> x] : o \in {"and", "or"}, x \in UNION {[1..k -> S] : k \in 1..n}}
NotOf(S) == {[op |-> "not", e |-> x] : x \in S}
T1 == Leaves \cup NotOf(Leaves) \cup Nary(Leaves, 2)
T2 == T1 \cup NotOf(T1) \cup Nary(Leaves \cup NotOf({L1}) \cup Nary({L1, L3}, 2), 2)
T3 == T2 \cup NotOf(Nary({L1, [op |-> "not", e |-> L2]} \cup Nary({L1, L2}, 2), 2)) \cup Nary({L1} \cup Nary({L1, [op |-> "or", es |-> <<L2, L3>>], [op |-> "and", es |-> <<L3>>]}, 2), 2)
U == IF Deep THEN T3 ELSE T2
GBs == {<<>>, <<<<97>>>>, <<<<98, 95, 49>>, <<97>>>>}

VARIABLE x
Init == x = 0
Next == x' = x
Spec == Init /\ [][Next]_x
Good(t, gb) == LET s1 == Format(t, gb)  r1 == Parse(s1) IN
               /\ r1.ok /\ Norm(r1.e) = Norm(t) /\ r1.gb = gb
               /\ LET s2 == Format(r1.e, r1.gb)  r2 == Parse(s2) IN r2.ok /\ Format(r2.e, r2.gb) = s2
RoundTripOK == \A t \in U : \A gb \in GBs : Good(t, gb)
EmitTrees == Emit => \A t \in U : \A gb \in GBs : PrintT(ToJson([tag |-> "tree", e |-> t, gb |-> gb]))
=============================================================================
