------------------------------ MODULE Trace_QL ------------------------------
(* Trace validation for the query language: every recorded call of the real ParseQuery     *)
(* (C09) and every format/parse round trip of the real QueryToString (C10) is re-derived   *)
(* with the specification's lexer, parser and normal form.                                 *)
EXTENDS UpdogQL, TraceBase
tvars == <<l>>
TInit == TraceBaseInit
TParse == /\ IsEvent("Parse")
          /\ ~Ev.panic /\ ~Ev.leak                              \* total, leaves no goroutine behind
          /\ ~Ev.both                                           \* an error comes with no query
          /\ LET r == Parse(Ev.s) IN
             /\ Ev.ok = r.ok                                     \* accepts exactly the grammar
             /\ r.ok => (Ev.e = r.e /\ Ev.gb = r.gb)             \* and returns the prescribed tree
\* nesting beyond what TLC's recursion depth validates: termination, no panic, no leak, verdict known a priori
TParseDeep == IsEvent("ParseDeep") /\ ~Ev.panic /\ ~Ev.leak /\ Ev.ok
TRoundTrip == /\ IsEvent("RoundTrip")
              /\ ~Ev.panic
              /\ Ev.ok1 /\ Ev.ok2
              /\ LET r1 == Parse(Ev.s1)  r2 == Parse(Ev.s2) IN
                 /\ r1.ok /\ r1.e = Ev.t1 /\ r1.gb = Ev.gb1       \* the formatter's text is accepted; C09's oracle for the tree
                 /\ Norm(Ev.t1) = Norm(Ev.t) /\ Ev.gb1 = Ev.gb    \* same meaning, same group-by list
                 /\ r2.ok /\ r2.e = Ev.t2
                 /\ Ev.s3 = Ev.s2                                \* formatting the re-parsed tree is stable
TNext == TParse \/ TParseDeep \/ TRoundTrip
TSpec == TInit /\ [][TNext]_tvars
=============================================================================
