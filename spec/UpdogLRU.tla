------------------------------ MODULE UpdogLRU ------------------------------
(***************************************************************************)
(* The LRU result cache (cache.go) as pure operators over a cache value    *)
(*   c = [max, ovh, order, ent, cur, ctr]                                  *)
(* order: keys, most recently used first; ent[k] = [acct, real, bm]:       *)
(* accounted size, real in-memory size of the stored bitmap, the bitmap;   *)
(* cur: accounted total (sizes + per-entry overhead ovh); ctr: counters.   *)
(* LruGet/LruPut are code-shaped (exact).  TolGet/TolPut are the           *)
(* black-box relation C07 states: it is what trace validation uses and     *)
(* what the exact operators are shown to refine.                           *)
(***************************************************************************)
EXTENDS Naturals, Sequences, FiniteSets, SequencesExt, Functions, Folds, TLC

CONSTANTS OverheadMax,              \* upper bound of the per-entry bookkeeping overhead (bytes) an implementation may account
          NoReaccountOnOverwrite,   \* negative control (code as found): overwriting keeps the old accounted size, no eviction
          NoMoveToFrontOnGet,       \* negative control
          EvictFront,               \* negative control: evict the most recently used
          NoSubtractOnEvict         \* negative control: eviction forgets to reduce the accounted size

Without(seq, k) == SelectSeq(seq, LAMBDA x : x # k)
Resident(c)    == Range(c.order)
SumReal(c)     == FoldFunction(LAMBDA x, acc : acc + x, 0, [i \in DOMAIN c.order |-> c.ent[c.order[i]].real])
ZeroCtr        == [get |-> 0, put |-> 0, hit |-> 0, miss |-> 0]
NewLRU(max, ovh) == [max |-> max, ovh |-> ovh, order |-> <<>>, ent |-> <<>>, cur |-> 0, ctr |-> ZeroCtr]
RestrictTo(f, S) == [x \in S |-> f[x]]

(* ------------------------------ exact, code-shaped ------------------------------ *)
LruGet(c, k) ==
  IF k \in Resident(c)
  THEN [hit |-> TRUE, bm |-> c.ent[k].bm,
        c |-> [c EXCEPT !.order = IF NoMoveToFrontOnGet THEN @ ELSE <<k>> \o Without(@, k),
                        !.ctr = [@ EXCEPT !.get = @ + 1, !.hit = @ + 1]]]
  ELSE [hit |-> FALSE, bm |-> 0,
        c |-> [c EXCEPT !.ctr = [@ EXCEPT !.get = @ + 1, !.miss = @ + 1]]]

RECURSIVE EvictLoop(_)
EvictLoop(c) ==
  IF c.cur > c.max /\ Len(c.order) > 0
  THEN LET victim == IF EvictFront THEN Head(c.order) ELSE Last(c.order)
           acc    == c.ent[victim].acct + c.ovh
       IN EvictLoop([c EXCEPT !.order = Without(@, victim),
                              !.ent = RestrictTo(@, DOMAIN @ \ {victim}),
                              !.cur = IF NoSubtractOnEvict THEN @ - 1 ELSE @ - acc])
  ELSE c

LruPut(c, k, bm, size) ==
  LET c0 == [c EXCEPT !.ctr = [@ EXCEPT !.put = @ + 1]] IN
  IF k \in Resident(c)
  THEN IF NoReaccountOnOverwrite
       THEN [c0 EXCEPT !.order = <<k>> \o Without(@, k), !.ent = [@ EXCEPT ![k] = [acct |-> @.acct, real |-> size, bm |-> bm]]]
       ELSE EvictLoop([c0 EXCEPT !.order = <<k>> \o Without(@, k),
                                 !.ent = [@ EXCEPT ![k] = [acct |-> size, real |-> size, bm |-> bm]],
                                 !.cur = (@ + size) - c.ent[k].acct])
  ELSE EvictLoop([c0 EXCEPT !.order = <<k>> \o @,
                            !.ent = (k :> [acct |-> size, real |-> size, bm |-> bm]) @@ @,
                            !.cur = @ + size + c.ovh])

(* ------------------------------ what C07 states (tolerant) ------------------------------ *)
\* order / ent / counters after Put(k, bm, size) may be any state that: keeps a prefix of the
\* recency order with k moved to the front (evictions are a suffix: least recently used first);
\* holds at most max bytes of bitmaps; evicts nothing while even with the largest admissible
\* overhead everything fits.
SumSz(seq, sz, extra) == FoldFunction(LAMBDA x, acc : acc + x, 0, [i \in DOMAIN seq |-> sz[seq[i]] + extra])
\* black-box view of a cache value: what a caller can (eventually) observe
Proj(c) == [max |-> c.max, order |-> c.order, ctr |-> c.ctr,
            ent |-> [x \in Resident(c) |-> [real |-> c.ent[x].real, bm |-> c.ent[x].bm]]]
NewTol(max) == [max |-> max, order |-> <<>>, ctr |-> ZeroCtr, ent |-> <<>>]
TolPutSet(t, k, bm, size) ==
  LET o1 == <<k>> \o Without(t.order, k)
      e1 == (k :> [real |-> size, bm |-> bm]) @@ t.ent
      sz == [x \in DOMAIN e1 |-> e1[x].real]
      ok(n) == /\ SumSz(SubSeq(o1, 1, n), sz, 0) <= t.max
               /\ n < Len(o1) => SumSz(SubSeq(o1, 1, n + 1), sz, OverheadMax) > t.max
  IN {[max |-> t.max, order |-> SubSeq(o1, 1, n), ctr |-> [t.ctr EXCEPT !.put = @ + 1],
       ent |-> RestrictTo(e1, Range(SubSeq(o1, 1, n)))] : n \in {m \in 0..Len(o1) : ok(m)}}
TolGetRes(t, k) ==
  LET hit == k \in Range(t.order) IN
  [hit |-> hit, bm |-> IF hit THEN t.ent[k].bm ELSE 0,
   t |-> [t EXCEPT !.order = IF hit THEN <<k>> \o Without(@, k) ELSE @,
                   !.ctr = [@ EXCEPT !.get = @ + 1, !.hit = IF hit THEN @ + 1 ELSE @, !.miss = IF hit THEN @ ELSE @ + 1]]]
TolPut(c, k, bm, size, c2) == Proj(c2) \in TolPutSet(Proj(c), k, bm, size)
TolGet(c, k, r) == LET g == TolGetRes(Proj(c), k) IN r.hit = g.hit /\ (r.hit => r.bm = g.bm) /\ Proj(r.c) = g.t

\* structural well-formedness of the exact model
LruWellFormed(c) ==
  /\ DOMAIN c.ent = Resident(c)
  /\ Cardinality(Resident(c)) = Len(c.order)
  /\ c.cur = FoldFunction(LAMBDA x, acc : acc + x, 0, [i \in DOMAIN c.order |-> c.ent[c.order[i]].acct + c.ovh])
  /\ c.ctr.get = c.ctr.hit + c.ctr.miss
SizeBound(c) == SumReal(c) <= c.max
=============================================================================
