------------------------------ MODULE MC_Keys ------------------------------
(* KeySound: over the expression universe U, equal cache keys imply equal meaning (over   *)
(* all row shapes).  Holds for structural keys, refuted for the XOR keys of the code as   *)
(* found.  Pairs: for every weak key scheme and every expression, one expression of       *)
(* different meaning that the scheme confuses with it -- the adversarial query pairs      *)
(* replayed on a real cached index (Gen side, with the answers the spec prescribes).      *)
EXTENDS UpdogKeys, Json

CONSTANTS XorCacheKey, Deep, EmitPairs

EQ(c, v) == [op |-> "eq", col |-> c, val |-> v]
Leaves == {EQ(1, 1), EQ(2, 1), EQ(1, 2)}
Lits   == Leaves \cup {[op |-> "not", e |-> x] : x \in Leaves}
Nary(S, n) == {[op |-> o, es |-> s] : o \in {"and", "or"}, s \in UNION {[1..k -> S] : k \in 1..n}}
D1 == Lits \cup Nary(Lits, 3)
D2 == D1 \cup {[op |-> "not", e |-> x] : x \in Nary(Leaves, 2)} \cup Nary(Leaves \cup Nary(Leaves, 2), 2)
\* trailing-operand family: op1(x, op2(y, z), w) and op1(x, op2(y, z, w))
TailFam == {[op |-> o1, es |-> <<x, [op |-> o2, es |-> <<y, z>>], w>>] : o1 \in {"and", "or"}, o2 \in {"and", "or"}, x \in Leaves, y \in Leaves, z \in Leaves, w \in Leaves}
        \cup {[op |-> o1, es |-> <<x, [op |-> o2, es |-> <<y, z, w>>]>>] : o1 \in {"and", "or"}, o2 \in {"and", "or"}, x \in Leaves, y \in Leaves, z \in Leaves, w \in Leaves}
U  == (IF Deep THEN D2 ELSE D1) \cup TailFam

ShapesU == Shapes({1, 2}, {1, 2, 3})
\* Expressions are indexed by integers and every table is forced with TLCEval: TLC neither caches
\* definitions that depend on configuration constants nor the bodies of lazily represented functions,
\* so an unforced table would rebuild the whole universe on every lookup.
ETab == TLCEval(SetToSeq(U))
KTab(E) == TLCEval([i \in DOMAIN E |-> IF XorCacheKey THEN KeyXor(E[i]) ELSE KeyStruct(E[i])])
MTab(E) == TLCEval([i \in DOMAIN E |-> Meaning(E[i], ShapesU)])
ZTab(E) == TLCEval([i \in DOMAIN E |-> ExprSize(E[i])])

VARIABLE x
Init == x = 0
Next == x' = x
Spec == Init /\ [][Next]_x

\* (TLC does not cache definitions that depend on configuration constants: hoist them with LET)
KeySound == LET E == ETab  n == Len(E)  K == KTab(E)  M == MTab(E) IN
            \A i \in 1..n : \A j \in (i + 1)..n : K[i] = K[j] => M[i] = M[j]

\* ---- adversarial pairs ----
WTab(E) == TLCEval(<<[i \in DOMAIN E |-> KeyXor(E[i])], [i \in DOMAIN E |-> KeyOpBlind(E[i])], [i \in DOMAIN E |-> KeyNotBlind(E[i])],
                     [i \in DOMAIN E |-> KeyFlat(E[i])], [i \in DOMAIN E |-> KeyColBlind(E[i])], [i \in DOMAIN E |-> KeyValBlind(E[i])],
                     [i \in DOMAIN E |-> KeySetLike(E[i])], [i \in DOMAIN E |-> KeyStream(E[i])]>>)
WeakName == <<"xor", "opblind", "notblind", "flat", "colblind", "valblind", "setlike", "stream">>
\* dataset: every row shape once, plus column 4 unique per row (exact membership through group-by)
ShapeSeq == SetToSeq(ShapesU)
PRows == [i \in DOMAIN ShapeSeq |-> ShapeSeq[i] @@ (4 :> i)]
PairLT(a, b) == a[1] < b[1]
RowPairs(r) == SetToSortSeq({<<c, r[c]>> : c \in DOMAIN r}, PairLT)
EmitAll ==
  LET E == ETab  n == Len(E)  W == WTab(E)  M == MTab(E)  Z == ZTab(E)  P == TLCEval(PRows)
      R == TLCEval([i \in DOMAIN E |-> ExecSpec(P, E[i], <<4>>)]) IN
  /\ PrintT(ToJson([tag |-> "setup", rows |-> [i \in DOMAIN PRows |-> RowPairs(PRows[i])]]))
  /\ \A w \in 1..8 : \A i \in 1..n :
       LET S == {j \in 1..n : W[w][j] = W[w][i] /\ M[j] # M[i]} IN
       S # {} => LET j == CHOOSE j \in S : \A k \in S : Z[j] <= Z[k] IN
                 PrintT(ToJson([tag |-> "pair", scheme |-> WeakName[w], e1 |-> E[i], e2 |-> E[j], r1 |-> R[i], r2 |-> R[j]]))
Emit == EmitPairs => EmitAll
=============================================================================
