------------------------------ MODULE UpdogCLI ------------------------------
(***************************************************************************)
(* `updog create [-b] -o out in.csv` and `updog schema -f out` (C19).      *)
(* A CSV is abstract: a header (each header field a sequence of character  *)
(* classes), records (each field a value), and possibly a defect (ragged   *)
(* record, bare quote).  Header normalisation: lower-case letters stay,    *)
(* upper-case letters are lower-cased, every other character (other ASCII, *)
(* non-ASCII) becomes '_'.  Record i becomes row i with one value per      *)
(* header column.  Column names are tuples over {1:'_', 2:'a', 3:'b'}.     *)
(***************************************************************************)
EXTENDS UpdogCore

\* header symbols: "a" "b" lower case, "A" "B" upper case, "sp" space, "d" dash, "e" a non-ASCII letter
NormSym(x) == CASE x = "a" -> 2 [] x = "b" -> 3 [] x = "A" -> 2 [] x = "B" -> 3 [] OTHER -> 1
NormName(h) == [i \in DOMAIN h |-> NormSym(h[i])]
NormHeader(hdr) == [j \in DOMAIN hdr |-> NormName(hdr[j])]
Distinct(seq) == \A i, j \in DOMAIN seq : i # j => seq[i] # seq[j]

\* record -> row: one value per header column (by position)
RowOfRecord(names, rec) == [c \in Range(names) |-> rec[CHOOSE j \in DOMAIN names : names[j] = c]]
RowsOfCSV(csv) == LET names == NormHeader(csv.header) IN [i \in DOMAIN csv.records |-> RowOfRecord(names, csv.records[i])]

VARIABLES out,      \* the output path: [kind : "absent" | "index" | "other", rows]
          exit      \* exit status of the last command: 0 / 1, or -1 before any command
clivars == <<out, exit>>
AbsentOut == [kind |-> "absent", rows |-> <<>>]
CLIInit(pre) == out = pre /\ exit = -1

\* updog create: both modes produce the same index; a malformed CSV or an existing output fails and
\* leaves an existing output untouched (big mode may leave a junk file behind when there was none)
CreateOutcomes(pre, csv, big) ==
  IF pre.kind # "absent" THEN {[exit |-> 1, out |-> pre]}
  ELSE IF csv.defect # "none"
       THEN {[exit |-> 1, out |-> AbsentOut]} \cup (IF big THEN {[exit |-> 1, out |-> [kind |-> "other", rows |-> <<>>]]} ELSE {})
       ELSE {[exit |-> 0, out |-> [kind |-> "index", rows |-> RowsOfCSV(csv)]]}
Create(csv, big) == \E o \in CreateOutcomes(out, csv, big) : exit' = o.exit /\ out' = o.out
Schema == exit' = (IF out.kind = "index" THEN 0 ELSE 1) /\ out' = out
NeverClobbers == [][out.kind # "absent" => out' = out]_clivars
=============================================================================
