------------------------------ MODULE UpdogRPC ------------------------------
(***************************************************************************)
(* The gRPC service (cmd/updog/server.go): one process serving one index.  *)
(* A request is a batch of queries [id, e, gb]; an expression may contain  *)
(* holes (parts of the message left unset: [op |-> "hole"]) and AND/OR     *)
(* without operands.  C13: all queries valid => one result per query, in   *)
(* request order, tagged with the query's id (or its 1-based position when *)
(* the id is 0), equal to the library's answer; any invalid member => the  *)
(* call fails, no partial response.  C14: whatever the request, the        *)
(* process stays up and keeps answering.                                   *)
(***************************************************************************)
EXTENDS UpdogCore

CONSTANTS NoNilCheck       \* negative control (code as found): a hole makes the handler panic, which kills the process

RECURSIVE HasHole(_), HasEmptyOp(_)
HasHole(e) == CASE e.op = "hole" -> TRUE [] e.op = "eq" -> FALSE [] e.op = "not" -> HasHole(e.e)
                [] OTHER -> \E i \in DOMAIN e.es : HasHole(e.es[i])
HasEmptyOp(e) == CASE e.op \in {"hole", "eq"} -> FALSE [] e.op = "not" -> HasEmptyOp(e.e)
                   [] OTHER -> e.es = <<>> \/ \E i \in DOMAIN e.es : HasEmptyOp(e.es[i])
\* a comparison that still carries a placeholder number (nobody bound it): [op |-> "eq", col, val, ph] with ph > 0
RECURSIVE HasPlaceholder(_)
HasPlaceholder(e) == CASE e.op = "eq" -> ("ph" \in DOMAIN e /\ e.ph > 0) [] e.op = "hole" -> FALSE [] e.op = "not" -> HasPlaceholder(e.e)
                       [] OTHER -> \E i \in DOMAIN e.es : HasPlaceholder(e.es[i])
\* columns tested by the complete leaves
RECURSIVE LeafCols(_)
LeafCols(e) == CASE e.op = "eq" -> {e.col} [] e.op = "hole" -> {} [] e.op = "not" -> LeafCols(e.e)
                 [] OTHER -> UNION {LeafCols(e.es[i]) : i \in DOMAIN e.es}

\* what one query may yield: "err", an exact result, or (operators without operands, which the
\* library is free to answer or to reject) any result
QOutcome(rows, q) ==
  IF HasHole(q.e) THEN [kind |-> "err"]
  ELSE IF ~(LeafCols(q.e) \subseteq Cols(rows)) \/ ~(Range(q.gb) \subseteq Cols(rows)) THEN [kind |-> "err"]
  ELSE IF HasPlaceholder(q.e) THEN [kind |-> "anyorerr"]          \* answered somehow, or rejected: never a crash
  ELSE IF HasEmptyOp(q.e) THEN [kind |-> "any"]
  ELSE [kind |-> "res", res |-> ExecSpec(rows, q.e, q.gb)]

VARIABLES proc,     \* "up" | "crashed"
          reply     \* reply to the last request
rvars == <<proc, reply>>
RInit == proc = "up" /\ reply = [kind |-> "init"]

\* the replies the specification allows for a batch
BatchReplies(rows, batch) ==
  LET outs == [i \in DOMAIN batch |-> QOutcome(rows, batch[i])]
      err  == [kind |-> "rpcerror", results |-> <<>>]
      resp == [kind |-> "response",
               results |-> [i \in DOMAIN batch |-> [id |-> IF batch[i].id = 0 THEN i ELSE batch[i].id, out |-> outs[i]]]]
  IN IF \E i \in DOMAIN outs : outs[i].kind = "err" THEN {err}
     ELSE IF \E i \in DOMAIN outs : outs[i].kind = "anyorerr" THEN {resp, err} ELSE {resp}
Request(rows, batch) ==
  /\ proc = "up"
  /\ IF NoNilCheck /\ \E i \in DOMAIN batch : HasHole(batch[i].e)
     THEN proc' = "crashed" /\ reply' = [kind |-> "dead"]
     ELSE proc' = proc /\ reply' \in BatchReplies(rows, batch)
NeverCrashes == proc = "up"
=============================================================================
