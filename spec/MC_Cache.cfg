SPECIFICATION Spec
CONSTANTS
  Cap = 100000
  Ovh = 72
  MaxQ = 3
  XorCacheKey = FALSE
  OverheadMax = 256
  NoReaccountOnOverwrite = FALSE
  NoMoveToFrontOnGet = FALSE
  EvictFront = FALSE
  NoSubtractOnEvict = FALSE
INVARIANTS Transparent CacheWF
CHECK_DEADLOCK FALSE
