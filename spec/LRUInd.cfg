INIT IndInit
NEXT Next
