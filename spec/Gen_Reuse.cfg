SPECIFICATION GSpec
CONSTANTS
  Paths = {1, 2}
  MaxSteps = 4
  DropLastBitmap = FALSE
  KeepGroupByScratch = FALSE
  ClobberOnFlush = FALSE
  BigByFold = TRUE
INVARIANTS EmitSetup EmitHist AnswersCorrect
PROPERTIES QueryObjectsStable
CHECK_DEADLOCK FALSE
