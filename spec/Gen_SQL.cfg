SPECIFICATION GSpec
CONSTANTS
  Keys <- KeysOneOpt
  Handles = {1, 2}
  Threads = {1}
  MaxSteps = 6
  NoDriverMutex = FALSE
  KeepClosedConnInCache = FALSE
INVARIANTS NoUseAfterClose RefsExact ReleasedWhenNoHandle EmitHist
CHECK_DEADLOCK FALSE
