SPECIFICATION Spec
CONSTANTS
  XorCacheKey = FALSE
  Deep = FALSE
  EmitPairs = FALSE
INVARIANTS KeySound Emit
CHECK_DEADLOCK FALSE
