SPECIFICATION Spec
CONSTANTS
  MaxArgs = 3
  Emit = FALSE
INVARIANTS BindExact EmitAll EmitDSN
PROPERTY TemplatesImmutable
CHECK_DEADLOCK FALSE
