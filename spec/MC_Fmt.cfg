SPECIFICATION Spec
CONSTANTS
  Deep = FALSE
  Emit = FALSE
  NoEOFCheck = FALSE
  DropUnterminated = FALSE
  WrapPlaceholder = FALSE
INVARIANTS RoundTripOK EmitTrees
CHECK_DEADLOCK FALSE
