------------------------------ MODULE MC_Store ------------------------------
(* All file variants x option combinations x histories of <= MaxSteps calls over           *)
(* {open on-demand, open preloaded, close}.  Gen: every history with the outcome of each   *)
(* call and, after each call, whether the file must be free (lock probe) / must not exist. *)
EXTENDS UpdogStore, Json
CONSTANTS MaxSteps, Emit
VARIABLE hist
mvars == <<svars, hist>>
P == CHOOSE p \in Paths : TRUE
Init == /\ \E f \in {x \in FileVariants : Consistent(x)} \cup {AbsentFile} : fsx = [p \in Paths |-> f]
        /\ flock = [p \in Paths |-> "free"] /\ hnd = [p \in Paths |-> "none"] /\ out = "init" /\ hist = <<>>
Rec(op) == hist' = Append(hist, [op |-> op, out |-> out', free |-> flock'[P] = "free", exists |-> fsx'[P].exists])
Next == /\ Len(hist) < MaxSteps
        /\ out \notin {"panic", "hang"}
        /\ \/ Open(P, FALSE) /\ Rec("open")
           \/ Open(P, TRUE) /\ Rec("openpre")
           \/ Close(P) /\ Rec("close")
Spec == Init /\ [][Next]_mvars
EmitHist == (Emit /\ Len(hist) = MaxSteps) => PrintT(ToJson([tag |-> "store", file |-> fsx[P], steps |-> hist]))
=============================================================================
