SPECIFICATION Spec
CONSTANTS
  MaxRecs = 2
  Emit = FALSE
INVARIANTS ExitOK SchemaOK EmitCase
PROPERTY NeverClobbers
CHECK_DEADLOCK FALSE
