SPECIFICATION Spec
CONSTANTS
  MaxItems = 8
  NoDrain = FALSE
INVARIANT NoLeak
PROPERTY Termination
CHECK_DEADLOCK FALSE
