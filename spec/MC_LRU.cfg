SPECIFICATION Spec
CONSTANTS
  Keys = {1, 2, 3}
  Sizes = {0, 100, 400, 1200}
  MaxBytes = 1000
  Ovh = 72
  MaxOps = 5
  OverheadMax = 256
  NoReaccountOnOverwrite = FALSE
  NoMoveToFrontOnGet = FALSE
  EvictFront = FALSE
  NoSubtractOnEvict = FALSE
INVARIANTS WellFormed Bound HitReturnsLastPut FitsIsRetrievable
PROPERTIES StepAllowed
CHECK_DEADLOCK FALSE
