------------------------------ MODULE MC_Core ------------------------------
(* Design-level check of the core algebra: for every dataset of <= MaxRows rows over the  *)
(* row shapes and every query of the finite query set, the implementation-shaped          *)
(* evaluation over the file contents (EvalBM / nested group-by refinement, for the file   *)
(* the in-memory writer and the big writer produce) equals the declarative ExecSpec.      *)
EXTENDS UpdogCore

CONSTANTS MaxRows, DCols, DVals, QCols, QVals, MaxGB, Depth2, DropLastBitmap, NotOffByOne,
          WithUnique     \* every row additionally carries column 4 with a value unique to the row (C05: exact membership)

VARIABLE rows
vars == <<rows>>

RowShapes == UNION {[S -> DVals] : S \in SUBSET DCols}

Leaves == {[op |-> "eq", col |-> c, val |-> v] : c \in QCols, v \in QVals}
Lits   == Leaves \cup {[op |-> "not", e |-> l] : l \in Leaves}
Nary(S, n) == {[op |-> o, es |-> s] : o \in {"and", "or"}, s \in UNION {[1..k -> S] : k \in 1..n}}
D1     == Lits \cup Nary(Lits, 2)
\* depth 2: negated and nested combinations over a thinned operand set (keeps the run in minutes)
Thin   == {[op |-> "eq", col |-> 1, val |-> 1], [op |-> "not", e |-> [op |-> "eq", col |-> 2, val |-> 1]]}
           \cup Nary({[op |-> "eq", col |-> 1, val |-> 2], [op |-> "eq", col |-> 2, val |-> 2], [op |-> "eq", col |-> 1, val |-> 3]}, 2)
D2     == D1 \cup {[op |-> "not", e |-> x] : x \in Nary(Lits, 2)} \cup Nary(Thin, 2)
Exprs  == IF Depth2 THEN D2 ELSE D1
GBs    == UNION {[1..k -> QCols] : k \in 0..MaxGB}

WriterFile(big) == IF big THEN BigFileOf(rows, DropLastBitmap) ELSE FileOf(rows)

\* NotOffByOne: negative control, NOT complements within 1..n-1 instead of 1..n
Tweak(f) == IF NotOffByOne /\ f.n > 0 THEN [f EXCEPT !.n = f.n - 1] ELSE f

Init == rows = <<>>
Next == /\ Len(rows) < MaxRows
        /\ \E r \in RowShapes : rows' = Append(rows, IF WithUnique THEN r @@ (4 :> Len(rows) + 1) ELSE r)
Spec == Init /\ [][Next]_vars

AlgoEqSpec == \A big \in BOOLEAN : LET f == Tweak(WriterFile(big)) IN
                \A e \in Exprs : \A gb \in GBs : ExecAlgo(f, e, gb) = ExecSpec(rows, e, gb)
CheckFormAgrees == \A e \in Lits : \A gb \in GBs :
                     ResMatches(rows, e, gb, ExecSpec(rows, e, gb))
WritersAgree == BigFileOf(rows, DropLastBitmap) = FileOf(rows)
=============================================================================
