------------------------------ MODULE MC_Crash ------------------------------
EXTENDS UpdogCrash
ConfigsDef == {[total |-> t, batch |-> 2, big |-> b, occupied |-> o] : t \in 0..5, b \in BOOLEAN, o \in BOOLEAN}
=============================================================================
