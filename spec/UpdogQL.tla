------------------------------ MODULE UpdogQL ------------------------------
(***************************************************************************)
(* The query language (internal/queryparser): byte-level lexer, recursive- *)
(* descent parser transcribed from the EBNF in the file header, the        *)
(* formatter (QueryToString), the normal form used to compare meanings,    *)
(* placeholder binding, and -- independently of the parser -- the language *)
(* the EBNF generates, bottom-up, as sets of token-type strings.           *)
(* Strings are tuples of bytes (0..255).  The lexer is byte-exact: every   *)
(* special character is ASCII and no byte of a multi-byte or invalid UTF-8 *)
(* sequence is ASCII, so decoding runes cannot change token boundaries.    *)
(***************************************************************************)
EXTENDS Naturals, Sequences, FiniteSets, SequencesExt, Functions, TLC

CONSTANTS NoEOFCheck,        \* negative control (code as found): trailing tokens after the query are ignored
          DropUnterminated,  \* negative control (code as found): an unterminated string produces no token at all
          WrapPlaceholder    \* negative control (code as found): placeholder numbers are truncated to 32 bits

MaxPh == 2147483647          \* also TLC's largest integer: arithmetic below never exceeds it

IsWS(b)     == b \in {32, 9, 10, 13}
IsLetter(b) == (b >= 97 /\ b <= 122) \/ (b >= 65 /\ b <= 90)
IsDigit(b)  == b >= 48 /\ b <= 57
IsIdent(b)  == IsLetter(b) \/ IsDigit(b) \/ b = 95
Single == (40 :> "(" @@ 41 :> ")" @@ 38 :> "&" @@ 124 :> "|" @@ 94 :> "^" @@ 61 :> "=" @@ 44 :> "," @@ 59 :> ";")

Tok(t, v, n) == [t |-> t, v |-> v, n |-> n]

RECURSIVE SkipWS(_, _), SkipIdent(_, _), SkipDigits(_, _)
SkipWS(s, i)     == IF i <= Len(s) /\ IsWS(s[i]) THEN SkipWS(s, i + 1) ELSE i
SkipIdent(s, i)  == IF i <= Len(s) /\ IsIdent(s[i]) THEN SkipIdent(s, i + 1) ELSE i
SkipDigits(s, i) == IF i <= Len(s) /\ IsDigit(s[i]) THEN SkipDigits(s, i + 1) ELSE i

\* value: opening quote at i-1; returns [ok, next, val]; "" inside is one quote
RECURSIVE ScanValue(_, _, _)
ScanValue(s, i, acc) ==
  IF i > Len(s) THEN [ok |-> FALSE, next |-> i, val |-> acc]
  ELSE IF s[i] = 34
       THEN IF i + 1 <= Len(s) /\ s[i + 1] = 34 THEN ScanValue(s, i + 2, Append(acc, 34))
            ELSE [ok |-> TRUE, next |-> i + 1, val |-> acc]
       ELSE ScanValue(s, i + 1, Append(acc, s[i]))

\* value of the digit string s[i..j-1]; 0 when empty or not representable (> MaxPh): both are rejected
\* by the parser like $0.  WrapPlaceholder: an unrepresentable number silently becomes 1.
RECURSIVE DigitsVal(_, _, _, _, _)
DigitsVal(s, i, j, acc, wrap) ==
  IF i >= j THEN acc
  ELSE LET d == s[i] - 48 IN
       IF acc > (MaxPh - d) \div 10 THEN (IF wrap THEN 1 ELSE 0)
       ELSE DigitsVal(s, i + 1, j, acc * 10 + d, wrap)

\* the token sequence; the lexer stops after an error token
RECURSIVE Lex(_, _, _, _, _)
Lex(s, i, acc, drop, wrap) ==
  IF i > Len(s) THEN Append(acc, Tok("eof", <<>>, 0))
  ELSE LET b == s[i] IN
    IF IsWS(b) THEN Lex(s, SkipWS(s, i), acc, drop, wrap)
    ELSE IF b \in DOMAIN Single THEN Lex(s, i + 1, Append(acc, Tok(Single[b], <<>>, 0)), drop, wrap)
    ELSE IF IsLetter(b) THEN LET j == SkipIdent(s, i) IN Lex(s, j, Append(acc, Tok("field", SubSeq(s, i, j - 1), 0)), drop, wrap)
    ELSE IF b = 34 THEN LET r == ScanValue(s, i + 1, <<>>) IN
                        IF r.ok THEN Lex(s, r.next, Append(acc, Tok("value", r.val, 0)), drop, wrap)
                        ELSE IF drop THEN Append(acc, Tok("eof", <<>>, 0))
                        ELSE Append(acc, Tok("err", <<>>, 0))
    ELSE IF b = 36 THEN LET j == SkipDigits(s, i + 1) IN
                        Lex(s, j, Append(acc, Tok("ph", <<>>, DigitsVal(s, i + 1, j, 0, wrap))), drop, wrap)
    ELSE Append(acc, Tok("err", <<>>, 0))
Tokens(s)    == Lex(s, 1, <<>>, DropUnterminated, WrapPlaceholder)     \* the lexer as built
TokensRef(s) == Lex(s, 1, <<>>, FALSE, FALSE)                          \* the documented lexical rules

(* ------------------------------ parser ------------------------------ *)
Fail == [ok |-> FALSE, tree |-> [op |-> "none"], pos |-> 0]
Ok(tree, pos) == [ok |-> TRUE, tree |-> tree, pos |-> pos]
TT(ts, p) == IF p <= Len(ts) THEN ts[p].t ELSE "eof"

RECURSIVE PSimple(_, _), PExpr(_, _), PChain(_, _, _, _)
PSimple(ts, p) ==
  CASE TT(ts, p) = "(" -> LET r == PExpr(ts, p + 1) IN
                          IF r.ok /\ TT(ts, r.pos) = ")" THEN Ok(r.tree, r.pos + 1) ELSE Fail
    [] TT(ts, p) = "^" -> LET r == PSimple(ts, p + 1) IN
                          IF r.ok THEN Ok([op |-> "not", e |-> r.tree], r.pos) ELSE Fail
    [] TT(ts, p) = "field" ->
         IF TT(ts, p + 1) # "=" THEN Fail
         ELSE IF TT(ts, p + 2) = "value" THEN Ok([op |-> "eq", col |-> ts[p].v, val |-> ts[p + 2].v, ph |-> 0], p + 3)
         ELSE IF TT(ts, p + 2) = "ph" /\ ts[p + 2].n >= 1 /\ ts[p + 2].n <= MaxPh
              THEN Ok([op |-> "eq", col |-> ts[p].v, val |-> <<>>, ph |-> ts[p + 2].n], p + 3)
         ELSE Fail
    [] OTHER -> Fail
\* sep-separated chain of simple expressions; acc holds the operands so far
PChain(ts, p, sep, acc) ==
  IF TT(ts, p) = sep
  THEN LET r == PSimple(ts, p + 1) IN IF r.ok THEN PChain(ts, r.pos, sep, Append(acc, r.tree)) ELSE Fail
  ELSE Ok(acc, p)
PExpr(ts, p) ==
  LET r == PSimple(ts, p) IN
  IF ~r.ok THEN Fail
  ELSE IF TT(ts, r.pos) = "&" THEN LET c == PChain(ts, r.pos, "&", <<r.tree>>) IN
                                   IF c.ok THEN Ok([op |-> "and", es |-> c.tree], c.pos) ELSE Fail
  ELSE IF TT(ts, r.pos) = "|" THEN LET c == PChain(ts, r.pos, "|", <<r.tree>>) IN
                                   IF c.ok THEN Ok([op |-> "or", es |-> c.tree], c.pos) ELSE Fail
  ELSE r
RECURSIVE PFields(_, _, _)
PFields(ts, p, acc) ==
  IF TT(ts, p) # "field" THEN Fail
  ELSE IF TT(ts, p + 1) = "," THEN PFields(ts, p + 2, Append(acc, ts[p].v))
  ELSE Ok(Append(acc, ts[p].v), p + 1)
NoQuery == [ok |-> FALSE, e |-> [op |-> "none"], gb |-> <<>>]
PQuery(ts) ==
  LET r == PExpr(ts, 1) IN
  IF ~r.ok THEN NoQuery
  ELSE IF TT(ts, r.pos) = ";"
       THEN LET f == PFields(ts, r.pos + 1, <<>>) IN
            IF f.ok /\ (NoEOFCheck \/ (f.pos <= Len(ts) /\ ts[f.pos].t = "eof")) THEN [ok |-> TRUE, e |-> r.tree, gb |-> f.tree] ELSE NoQuery
       ELSE IF NoEOFCheck \/ (r.pos <= Len(ts) /\ ts[r.pos].t = "eof") THEN [ok |-> TRUE, e |-> r.tree, gb |-> <<>>] ELSE NoQuery
Parse(s) == PQuery(Tokens(s))

(* ------------------------------ the language of the EBNF, generated independently ------------------------------ *)
\* token types; a comparison is  field = value  or  field = ph
Cat(A, B) == {a \o b : a \in A, b \in B}
UpTo(S, n) == {x \in S : Len(x) <= n}
Cmp == {<<"field", "=", "value">>, <<"field", "=", "ph">>}
\* SimpleL(n, d, cmp, fld): simple-expr sentences of length <= n, nesting depth <= d, over the comparison sentences cmp
RECURSIVE SimpleL(_, _, _), ExprL(_, _, _)
ChainL(n, sep, S) == LET RECURSIVE Grow(_, _)
                         Grow(cur, k) == IF k = 0 \/ cur = {} THEN {} ELSE cur \cup Grow(UpTo(Cat(Cat(cur, {<<sep>>}), S), n), k - 1)
                     IN Grow(UpTo(Cat(Cat(S, {<<sep>>}), S), n), n)
SimpleL(n, d, cmp) == IF d = 0 \/ n < 1 THEN {} ELSE
                      UpTo(cmp \cup Cat({<<"^">>}, SimpleL(n - 1, d - 1, cmp)) \cup Cat(Cat({<<"(">>}, ExprL(n - 2, d - 1, cmp)), {<<")">>}), n)
ExprL(n, d, cmp) == LET S == SimpleL(n, d, cmp) IN S \cup ChainL(n, "&", S) \cup ChainL(n, "|", S)
RECURSIVE FieldsL(_, _)
FieldsL(n, f) == IF n < 1 THEN {} ELSE {<<f>>} \cup UpTo(Cat({<<f, ",">>}, FieldsL(n - 2, f)), n)
QueryLG(n, cmp, f) == LET E == ExprL(n, n, cmp) IN E \cup UpTo(Cat(Cat(E, {<<";">>}), FieldsL(n, f)), n)
QueryL(n) == QueryLG(n, Cmp, "field")
\* the same language over macro symbols: "C" / "P" stand for a comparison with a value / placeholder, "F" for a field
QueryLMacro(n) == QueryLG(n, {<<"C">>, <<"P">>}, "F")

\* lexically valid: no error token, every placeholder numbered from 1 and representable
LexOK(ts) == \A i \in DOMAIN ts : ts[i].t # "err" /\ (ts[i].t = "ph" => (ts[i].n >= 1 /\ ts[i].n <= MaxPh))
Types(ts) == [i \in 1..(Len(ts) - 1) |-> ts[i].t]       \* without the final eof
Sentence(ts, L) == LexOK(ts) /\ ts[Len(ts)].t = "eof" /\ Types(ts) \in L

(* ------------------------------ formatter, normal form, binding ------------------------------ *)
Join(seqs, sep) == LET RECURSIVE J(_) J(i) == IF i > Len(seqs) THEN <<>> ELSE (IF i > 1 THEN sep ELSE <<>>) \o seqs[i] \o J(i + 1) IN J(1)
Quote(v) == <<34>> \o FlattenSeq([i \in DOMAIN v |-> IF v[i] = 34 THEN <<34, 34>> ELSE <<v[i]>>]) \o <<34>>
RECURSIVE DecDigits(_)
DecDigits(n) == IF n < 10 THEN <<48 + n>> ELSE DecDigits(n \div 10) \o <<48 + (n % 10)>>
RECURSIVE Fmt(_)
Paren(x) == <<40, 32>> \o x \o <<32, 41>>
Fmt(e) == CASE e.op = "eq"  -> e.col \o <<32, 61, 32>> \o (IF e.ph > 0 THEN <<36>> \o DecDigits(e.ph) ELSE Quote(e.val))
            [] e.op = "not" -> <<94, 32>> \o (IF e.e.op \in {"and", "or"} THEN Paren(Fmt(e.e)) ELSE Fmt(e.e))
            [] e.op = "and" -> Join([i \in DOMAIN e.es |-> IF e.es[i].op = "or" THEN Paren(Fmt(e.es[i])) ELSE Fmt(e.es[i])], <<32, 38, 32>>)
            [] e.op = "or"  -> Join([i \in DOMAIN e.es |-> IF e.es[i].op = "and" THEN Paren(Fmt(e.es[i])) ELSE Fmt(e.es[i])], <<32, 124, 32>>)
Format(e, gb) == Fmt(e) \o (IF gb = <<>> THEN <<>> ELSE <<32, 59, 32>> \o Join(gb, <<44, 32>>))

\* meaning-preserving normal form: flatten directly nested nodes of the same operator, unwrap single operands
RECURSIVE Norm(_)
Norm(e) == CASE e.op = "eq"  -> e
             [] e.op = "not" -> [op |-> "not", e |-> Norm(e.e)]
             [] OTHER -> LET kids == [i \in DOMAIN e.es |-> Norm(e.es[i])]
                             flat == FlattenSeq([i \in DOMAIN kids |-> IF kids[i].op = e.op THEN kids[i].es ELSE <<kids[i]>>])
                         IN IF Len(flat) = 1 THEN flat[1] ELSE [op |-> e.op, es |-> flat]

RECURSIVE MaxPlaceholder(_)
MaxPlaceholder(e) == CASE e.op = "eq" -> e.ph [] e.op = "not" -> MaxPlaceholder(e.e)
                       [] OTHER -> LET m == [i \in DOMAIN e.es |-> MaxPlaceholder(e.es[i])] IN
                                   IF DOMAIN m = {} THEN 0 ELSE CHOOSE x \in Range(m) : \A y \in Range(m) : y <= x
RECURSIVE Bind(_, _)
Bind(e, args) == CASE e.op = "eq"  -> IF e.ph > 0 THEN [e EXCEPT !.val = args[e.ph], !.ph = 0] ELSE e
                   [] e.op = "not" -> [op |-> "not", e |-> Bind(e.e, args)]
                   [] OTHER -> [op |-> e.op, es |-> [i \in DOMAIN e.es |-> Bind(e.es[i], args)]]
=============================================================================
