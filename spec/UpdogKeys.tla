------------------------------ MODULE UpdogKeys ------------------------------
(***************************************************************************)
(* Cache keys of expressions, symbolically.  A 64-bit key is modelled      *)
(* under the assumption C03 states (no accidental 64-bit coincidence):     *)
(*  - KeyStruct: a structural hash is injective on expression trees, so    *)
(*    the key *is* the tree;                                               *)
(*  - KeyXor (code as found): a key is a set of atoms <<symbol, rotation>>,*)
(*    XOR is symmetric difference, rotate-left-by-1 shifts every atom;     *)
(*    two keys are equal iff the atom sets are equal;                      *)
(*  - a family of weak schemes a plausible wrong key function could be     *)
(*    (operator-blind, NOT-blind, nesting-blind, column-/value-blind):     *)
(*    used to enumerate the adversarial query pairs replayed on the code.  *)
(***************************************************************************)
EXTENDS UpdogCore

Shift(A) == {<<x[1], x[2] + 1>> : x \in A}
RECURSIVE XorAll(_, _)
XorAll(ks, i) == IF i > Len(ks) THEN {} ELSE SymDiff(ks[i], XorAll(ks, i + 1))

RECURSIVE KeyXor(_)
KeyXor(e) == CASE e.op = "eq"  -> {<<<<"L", e.col, e.val>>, 0>>}
               [] e.op = "not" -> SymDiff(Shift(KeyXor(e.e)), {<<<<"N", 0, 0>>, 0>>})
               [] e.op = "and" -> SymDiff({<<<<"A", 0, 0>>, 0>>}, XorAll([i \in DOMAIN e.es |-> Shift(KeyXor(e.es[i]))], 1))
               [] e.op = "or"  -> SymDiff({<<<<"O", 0, 0>>, 0>>}, XorAll([i \in DOMAIN e.es |-> Shift(KeyXor(e.es[i]))], 1))

KeyStruct(e) == e

RECURSIVE KeyOpBlind(_), KeyNotBlind(_), KeyFlat(_), KeyColBlind(_), KeyValBlind(_), KeySetLike(_)
\* AND and OR hash alike
KeyOpBlind(e) == CASE e.op = "eq" -> e [] e.op = "not" -> [op |-> "not", e |-> KeyOpBlind(e.e)]
                   [] OTHER -> [op |-> "nary", es |-> [i \in DOMAIN e.es |-> KeyOpBlind(e.es[i])]]
\* NOT is ignored
KeyNotBlind(e) == CASE e.op = "eq" -> e [] e.op = "not" -> KeyNotBlind(e.e)
                    [] OTHER -> [op |-> e.op, es |-> [i \in DOMAIN e.es |-> KeyNotBlind(e.es[i])]]
\* nesting is ignored: the key is the operator of the root plus the leaves in order
RECURSIVE LeavesOf(_)
LeavesOf(e) == CASE e.op = "eq" -> <<e>> [] e.op = "not" -> <<[op |-> "n"]>> \o LeavesOf(e.e)
                 [] OTHER -> FlattenSeq([i \in DOMAIN e.es |-> LeavesOf(e.es[i])])
KeyFlat(e) == <<e.op, LeavesOf(e)>>
KeyColBlind(e) == CASE e.op = "eq" -> [op |-> "eq", val |-> e.val] [] e.op = "not" -> [op |-> "not", e |-> KeyColBlind(e.e)]
                    [] OTHER -> [op |-> e.op, es |-> [i \in DOMAIN e.es |-> KeyColBlind(e.es[i])]]
KeyValBlind(e) == CASE e.op = "eq" -> [op |-> "eq", col |-> e.col] [] e.op = "not" -> [op |-> "not", e |-> KeyValBlind(e.e)]
                    [] OTHER -> [op |-> e.op, es |-> [i \in DOMAIN e.es |-> KeyValBlind(e.es[i])]]
\* operands as a set under an operator-blind root (sound for one operator, unsound across AND/OR of one operand)
KeySetLike(e) == CASE e.op = "eq" -> e [] e.op = "not" -> [op |-> "not", e |-> KeySetLike(e.e)]
                   [] OTHER -> [op |-> IF Len(e.es) = 1 THEN "one" ELSE e.op, es |-> {KeySetLike(e.es[i]) : i \in DOMAIN e.es}]

\* a structural hash that streams the tree in prefix order without operand counts or end markers:
\* a nested operator that is not the last operand can swallow its parent's trailing operands
RECURSIVE KeyStream(_)
KeyStream(e) == CASE e.op = "eq"  -> <<e>>
                  [] e.op = "not" -> <<[op |-> "n"]>> \o KeyStream(e.e)
                  [] OTHER        -> <<[op |-> e.op]>> \o FlattenSeq([i \in DOMAIN e.es |-> KeyStream(e.es[i])])
\* meaning of an expression: the row shapes (over the given columns / values) it accepts
Shapes(cols, vals) == UNION {[S -> vals] : S \in SUBSET cols}
Meaning(e, shapes) == {r \in shapes : Sat(r, e)}
=============================================================================
