SPECIFICATION CSpec
CONSTANTS
  Keys <- KeysOneOpt
  Handles = {1, 2}
  Threads = {1, 2}
  MaxSteps = 7
  NoDriverMutex = FALSE
  KeepClosedConnInCache = FALSE
INVARIANTS NoUseAfterClose RefsExact ReleasedWhenNoHandle NoHang
CHECK_DEADLOCK FALSE
