------------------------------ MODULE UpdogDict ------------------------------
(* The rank dictionary of a run: rank i stands for the byte string dict[i] (a tuple of    *)
(* 0..255).  Ranks are only meaningful if the strings are strictly increasing byte-wise   *)
(* (Go's string order); the specification checks that instead of trusting the harness.    *)
EXTENDS Naturals, Sequences

RECURSIVE BytesLT(_, _)
BytesLT(s, t) == IF t = <<>> THEN FALSE
                 ELSE IF s = <<>> THEN TRUE
                 ELSE IF Head(s) # Head(t) THEN Head(s) < Head(t)
                 ELSE BytesLT(Tail(s), Tail(t))

StrictlyIncreasing(d) == \A i \in 1..(Len(d) - 1) : BytesLT(d[i], d[i + 1])
NoNUL(s) == \A i \in DOMAIN s : s[i] # 0
=============================================================================
