SPECIFICATION TSpec
CONSTANTS
  NoEOFCheck = FALSE
  DropUnterminated = FALSE
  WrapPlaceholder = FALSE
CONSTRAINT HighWater
POSTCONDITION Accepted
CHECK_DEADLOCK FALSE
