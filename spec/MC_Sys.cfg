SPECIFICATION Spec
CONSTANTS
  MaxSteps = 4
  Emit = FALSE
  ServerFollowsFile = FALSE
INVARIANTS ClientAnswersSnapshot DriverAnswers ExitStatus BlockedOnlyByServer EmitHist
PROPERTIES OnlyCreateWrites NeverInPlace ExecsMonotone
VIEW View
CHECK_DEADLOCK FALSE
