SPECIFICATION Spec
CONSTANTS
  Results <- ResultsMC
  LenA = 3
  LenB = 2
  Emit = FALSE
  SharedBuffer = FALSE
INVARIANTS Snapshot EmitSched
CHECK_DEADLOCK FALSE
