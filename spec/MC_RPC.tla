------------------------------ MODULE MC_RPC ------------------------------
(* C13 / C14 generator and model check: batches of <= MaxBatch queries from a set with     *)
(* valid queries, an unknown column, every kind of hole at every position of a small tree  *)
(* and operators without operands; ids explicit / zero / duplicate.                        *)
EXTENDS UpdogRPC, Json
CONSTANTS MaxBatch, MaxReqs, Emit
Rows == <<(1 :> 1 @@ 2 :> 1), (1 :> 1 @@ 2 :> 2), (1 :> 2), (2 :> 2), <<>>, (1 :> 2 @@ 2 :> 1)>>
EQ(c, v) == [op |-> "eq", col |-> c, val |-> v]
H == [op |-> "hole"]
NOTe(x) == [op |-> "not", e |-> x]
AND(s) == [op |-> "and", es |-> s]
OR(s) == [op |-> "or", es |-> s]
Valid == {[e |-> EQ(1, 1), gb |-> <<>>], [e |-> AND(<<EQ(1, 1), NOTe(EQ(2, 2))>>), gb |-> <<2>>], [e |-> OR(<<EQ(1, 2), EQ(2, 2)>>), gb |-> <<1, 2>>]}
Invalid == {[e |-> EQ(3, 1), gb |-> <<>>], [e |-> EQ(1, 1), gb |-> <<3>>],
            [e |-> H, gb |-> <<>>], [e |-> NOTe(H), gb |-> <<>>], [e |-> AND(<<EQ(1, 1), H>>), gb |-> <<>>], [e |-> AND(<<H, EQ(1, 1)>>), gb |-> <<1>>],
            [e |-> OR(<<NOTe(H), EQ(1, 1)>>), gb |-> <<>>], [e |-> NOTe(AND(<<H, H>>)), gb |-> <<>>], [e |-> OR(<<AND(<<EQ(1, 1), H>>), EQ(2, 1)>>), gb |-> <<>>]}
EQP(c, v, n) == [op |-> "eq", col |-> c, val |-> v, ph |-> n]
Unresolved == {[e |-> EQP(1, 1, 3), gb |-> <<>>], [e |-> AND(<<EQP(1, 1, 1), EQ(2, 2)>>), gb |-> <<2>>], [e |-> AND(<<EQP(1, 1, 2), NOTe(H)>>), gb |-> <<>>],
               [e |-> OR(<<NOTe(AND(<<>>)), EQP(2, 1, 1)>>), gb |-> <<>>]}
Odd == {[e |-> AND(<<EQ(1, 1), AND(<<>>)>>), gb |-> <<1>>], [e |-> OR(<<OR(<<>>), EQ(2, 2)>>), gb |-> <<>>], [e |-> NOTe(AND(<<AND(<<>>), EQ(1, 1)>>)), gb |-> <<>>],
        [e |-> AND(<<>>), gb |-> <<>>], [e |-> OR(<<>>), gb |-> <<>>], [e |-> NOTe(AND(<<>>)), gb |-> <<>>], [e |-> AND(<<EQ(1, 1), OR(<<>>)>>), gb |-> <<1>>]}
QSet == Valid \cup Invalid \cup Odd \cup Unresolved
Ids == {0, 5}
Batches == UNION {[1..k -> {[id |-> i, e |-> q.e, gb |-> q.gb] : i \in Ids, q \in QSet}] : k \in 0..MaxBatch}

VARIABLES nreq, lastBatch
mvars == <<rvars, nreq, lastBatch>>
Init == RInit /\ nreq = 0 /\ lastBatch = <<>>
Next == nreq < MaxReqs /\ \E b \in Batches : Request(Rows, b) /\ nreq' = nreq + 1 /\ lastBatch' = b
Spec == Init /\ [][Next]_mvars

\* C13 as invariants over the reply
OneResultPerQueryInOrder ==
  reply.kind = "response" =>
     /\ Len(reply.results) = Len(lastBatch)
     /\ \A i \in DOMAIN lastBatch : reply.results[i].id = (IF lastBatch[i].id = 0 THEN i ELSE lastBatch[i].id)
     /\ \A i \in DOMAIN lastBatch : reply.results[i].out.kind = "res" => reply.results[i].out.res = ExecSpec(Rows, lastBatch[i].e, lastBatch[i].gb)
NoPartialResponse == reply.kind = "response" => \A i \in DOMAIN lastBatch : QOutcome(Rows, lastBatch[i]).kind # "err"
PairLT(a, b) == a[1] < b[1]
RowPairs(r) == SetToSortSeq({<<c, r[c]>> : c \in DOMAIN r}, PairLT)
EmitAll == (Emit /\ nreq = 0) =>
  /\ PrintT(ToJson([tag |-> "setup", rows |-> [i \in DOMAIN Rows |-> RowPairs(Rows[i])]]))
  /\ \A b \in Batches : PrintT(ToJson([tag |-> "batch", batch |-> b, replies |-> SetToSeq(BatchReplies(Rows, b))]))
=============================================================================
