SPECIFICATION TSpec
CONSTRAINT HighWater
POSTCONDITION Accepted
CHECK_DEADLOCK FALSE
