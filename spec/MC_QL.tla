------------------------------ MODULE MC_QL ------------------------------
(* C09 at design level and as behaviour generator.                                          *)
(*  Mode "tokens": every string of <= MaxLen macro tokens (a comparison is one symbol):     *)
(*     the parser accepts it iff it is a sentence of the EBNF-generated language.           *)
(*  Mode "bytes": every byte string of <= MaxLen characters of Alphabet: same equivalence   *)
(*     through the byte-level lexer; with Emit every string is printed with the verdict     *)
(*     (and the tree when accepted) for replay on the real ParseQuery.                      *)
EXTENDS UpdogQL, Json

CONSTANTS Mode, MaxLen, Alphabet, Emit,
          LangLen,    \* sentences up to this many tokens are generated (0: MaxLen)
          Prefix      \* bytes every enumerated string starts with (normally empty)

VARIABLE s
PrefixEmpty == <<>>
PrefixPh == <<97, 61, 36>>       \* a=$
Init == s = Prefix
Syms == IF Mode = "tokens" THEN {"C", "P", "^", "(", ")", "&", "|", ";", "F", ","} ELSE Alphabet
Next == Len(s) < MaxLen /\ \E x \in Syms : s' = Append(s, x)
Spec == Init /\ [][Next]_s

\* macro symbol -> real tokens
Expand(x) == CASE x = "C" -> <<Tok("field", <<97>>, 0), Tok("=", <<>>, 0), Tok("value", <<120>>, 0)>>
               [] x = "P" -> <<Tok("field", <<98>>, 0), Tok("=", <<>>, 0), Tok("ph", <<>>, 2)>>
               [] x = "F" -> <<Tok("field", <<99>>, 0)>>
               [] OTHER   -> <<Tok(x, <<>>, 0)>>
TokSeq == FlattenSeq([i \in DOMAIN s |-> Expand(s[i])]) \o <<Tok("eof", <<>>, 0)>>
\* the language is computed once per run (forced; depends on constants)
LL == IF LangLen = 0 THEN MaxLen ELSE LangLen
Lang == TLCEval(IF Mode = "tokens" THEN QueryLMacro(LL) ELSE QueryL(LL))

TokensOK == Mode = "tokens" => (PQuery(TokSeq).ok <=> s \in Lang)
BytesOK == Mode = "bytes" => (PQuery(Tokens(s)).ok <=> Sentence(TokensRef(s), Lang))
\* the macro-token strings with the verdict / tree of the transcribed parser, for replay as text
EmitTokens == (Mode = "tokens" /\ Emit) =>
   LET r == PQuery(TokSeq) IN
   PrintT(ToJson(IF r.ok THEN [m |-> s, ok |-> TRUE, e |-> r.e, gb |-> r.gb] ELSE [m |-> s, ok |-> FALSE]))
EmitBytes == (Mode = "bytes" /\ Emit) =>
   LET r == Parse(s) IN
   PrintT(ToJson(IF r.ok THEN [s |-> s, ok |-> TRUE, e |-> r.e, gb |-> r.gb] ELSE [s |-> s, ok |-> FALSE]))
=============================================================================
