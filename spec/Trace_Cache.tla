------------------------------ MODULE Trace_Cache ------------------------------
(* Trace validation for C03.  On top of Trace_Lib's events (every answer of a cached       *)
(* index must be the cache-less declarative one) a recording wrapper around the real      *)
(* cache logs every Get/Put with the *content* of the bitmap, and the driver logs the     *)
(* real cache key of every sub-expression (KeyOf).  Required: expressions that share a    *)
(* key are equivalent; whatever is stored under a key is the meaning of the expressions   *)
(* with that key over the added rows; a hit returns what was last stored under that key   *)
(* (so evaluation never altered a cached bitmap).                                         *)
EXTENDS Trace_Lib

VARIABLES keytab,    \* set of <<kid, expression>>: the real key (numbered) of each sub-expression
          lastput    \* lastput[kid]: content last stored under the key on the open handle
cvars == <<tvars, keytab, lastput>>

RECURSIVE ExprVals(_)
ExprVals(e) == CASE e.op = "eq" -> {e.val} [] e.op = "not" -> ExprVals(e.e)
                 [] OTHER -> UNION {ExprVals(e.es[i]) : i \in DOMAIN e.es}
\* 0 is a value rank no dictionary uses: "some other value"
Equivalent(e1, e2) ==
  LET cols == ExprCols(e1) \cup ExprCols(e2)
      vals == ExprVals(e1) \cup ExprVals(e2) \cup {0}
  IN \A r \in UNION {[S -> vals] : S \in SUBSET cols} : Sat(r, e1) = Sat(r, e2)
ExprsOf(kid) == {x[2] : x \in {y \in keytab : y[1] = kid}}
IdsOf(S) == {i - 1 : i \in S}
ContentOK(p, kid, bm) == \A e \in ExprsOf(kid) :
                            ExprCols(e) \subseteq Cols(w[p].rows) => bm = IdsOf(SatSet(w[p].rows, e))

CInit == TInit /\ keytab = {} /\ lastput = <<>>
CKeyOf == /\ IsEvent("KeyOf")
          /\ \A e \in ExprsOf(Ev.kid) : Equivalent(e, Ev.e)          \* different meaning never shares a key
          /\ keytab' = keytab \cup {<<Ev.kid, Ev.e>>}
          /\ UNCHANGED <<vars, hid, dictOK, lastput>>
CPut == /\ IsEvent("CachePut")
        /\ LET bm == {Ev.bm[i] : i \in DOMAIN Ev.bm} IN
           /\ ContentOK(Ev.p, Ev.kid, bm)
           /\ lastput' = (Ev.kid :> bm) @@ lastput
        /\ UNCHANGED <<vars, hid, dictOK, keytab>>
CGet == /\ IsEvent("CacheGet")
        /\ LET bm == {Ev.bm[i] : i \in DOMAIN Ev.bm} IN
           Ev.hit => /\ Ev.kid \in DOMAIN lastput /\ bm = lastput[Ev.kid]
                     /\ ContentOK(Ev.p, Ev.kid, bm)
        /\ UNCHANGED <<vars, hid, dictOK, keytab, lastput>>
\* a new handle starts with an empty cache; a new scenario forgets the key table
COpen == TOpen /\ lastput' = <<>> /\ UNCHANGED keytab
CReset == TReset /\ lastput' = <<>> /\ keytab' = {}
CNext == \/ CReset \/ COpen \/ CKeyOf \/ CPut \/ CGet
         \/ ((TDict \/ TPlant \/ TNewWriter \/ TDropWriter \/ TAddRows \/ TConcAddRows \/ TFlush \/ TFlushOverlap \/ TClose \/ TSchema \/ TExec \/ TIndexMetrics \/ TNewQuery \/ TExecQ)
             /\ UNCHANGED <<keytab, lastput>>)
CSpec == CInit /\ [][CNext]_cvars
=============================================================================
