------------------------------ MODULE UpdogCrash ------------------------------
(***************************************************************************)
(* Index creation as a sequence of transaction commits, with a crash       *)
(* possible between any two (C06).  The output file is described by what   *)
(* OpenIndex looks at: does it exist, has it the data bucket, the header   *)
(* (schema + row counter), and how many of the cfg.total bitmaps.          *)
(*  in-memory writer: CreateExcl; CommitBatch* (some bitmaps each, no      *)
(*     header; how many per transaction is the implementation's choice);   *)
(*     CommitFinal (remaining bitmaps + header).                           *)
(*  big writer: output created up front (CreateExcl); TempCommit steps do  *)
(*     not touch the output; one CommitFinal writes everything.            *)
(*  HeaderFirst (code as found): the header goes into the first commit.    *)
(***************************************************************************)
EXTENDS Naturals, Sequences, TLC

CONSTANTS Configs,      \* set of [total, batch, big, occupied]; occupied: the output path already holds a complete index
          HeaderFirst

VARIABLES cfg, file,    \* file = [exists, bucket, header, nv]
          pc,           \* "start" | "writing" | "done"
          alive
cvars == <<cfg, file, pc, alive>>

NoFile == [exists |-> FALSE, bucket |-> FALSE, header |-> FALSE, nv |-> 0]
Init == cfg \in Configs /\ file = NoFile /\ pc = "start" /\ alive = TRUE
CreateExcl == /\ alive /\ pc = "start" /\ ~cfg.occupied
              /\ file' = [file EXCEPT !.exists = TRUE] /\ pc' = "writing" /\ UNCHANGED <<cfg, alive>>
\* an occupied path: exclusive creation is refused before anything is written (file describes the new index: nothing of it exists);
\* re-creating in place would otherwise leave, after a crash, a file that opens and mixes two indexes
Refuse == /\ alive /\ pc = "start" /\ cfg.occupied
          /\ pc' = "done" /\ UNCHANGED <<cfg, file, alive>>
CommitBatch == /\ alive /\ pc = "writing" /\ ~cfg.big
               /\ \E k \in 0..(cfg.total - file.nv) :
                    file' = [file EXCEPT !.bucket = TRUE, !.nv = @ + k, !.header = (@ \/ HeaderFirst)]
               /\ UNCHANGED <<cfg, pc, alive>>
TempCommit == alive /\ pc = "writing" /\ cfg.big /\ UNCHANGED cvars
CommitFinal == /\ alive /\ pc = "writing"
               /\ file' = [file EXCEPT !.bucket = TRUE, !.nv = cfg.total, !.header = TRUE]
               /\ pc' = "done" /\ UNCHANGED <<cfg, alive>>
Crash == alive /\ alive' = FALSE /\ UNCHANGED <<cfg, file, pc>>
Next == CreateExcl \/ Refuse \/ CommitBatch \/ TempCommit \/ CommitFinal \/ Crash
Spec == Init /\ [][Next]_cvars

OpensOK(f) == f.exists /\ f.bucket /\ f.header
\* C06: whatever survives a crash is absent, or rejected by OpenIndex, or complete
CrashSafe == OpensOK(file) => file.nv = cfg.total
\* nothing is ever written onto an occupied path
OccupiedUntouched == cfg.occupied => file = NoFile
\* what opening the surviving file must do
ExpectedOpen(f) == IF ~f.exists THEN "absent" ELSE IF OpensOK(f) THEN "opened" ELSE "rejected"
=============================================================================
