#!/bin/sh
# Offline set-up: warm the Go build cache for the harness (plain and -race) against /repo.
set -e
cd "$(dirname "$0")"
export GOFLAGS=-mod=mod GOPROXY=off GOSUMDB=off GOTOOLCHAIN=local
T=$(mktemp -d /dev/shm/updogsetup.XXXXXX 2>/dev/null || mktemp -d)
mkdir -p "$T/tmp" "$T/h"
export TMPDIR="$T/tmp"
cp -r harness/. "$T/h/"
cp /repo/go.sum "$T/h/go.sum"
(cd "$T/h" && go build -tags verif -o "$T/vdrive" ./cmd/vdrive && go build -tags verif -race -o "$T/vdrive_race" ./cmd/vdrive)
(cd /repo && go build -tags verif -o "$T/updog" ./cmd/updog && go build -tags verif -race -o "$T/updog_race" ./cmd/updog)
rm -rf "$T"
java -version >/dev/null 2>&1
echo setup ok
