package main

import (
	"bytes"
	"context"
	"encoding/json"
	"flag"
	"fmt"
	"math/rand"
	"os"
	"os/exec"
	"sort"
	"strings"
	"time"

	"github.com/akrennmair/updog"
	"github.com/akrennmair/updog/zverif/internal/vx"
)

func init() { commands["replay-cli"] = replayCLI }

type cliCase struct {
	Tag     string     `json:"tag"`
	Header  [][]string `json:"header"`
	Norm    [][]int    `json:"norm"`
	Records [][]int    `json:"records"`
	Defect  string     `json:"defect"`
	Big     bool       `json:"big"`
	Pre     string     `json:"pre"`
	Allowed []struct {
		Exit int    `json:"exit"`
		Kind string `json:"kind"`
		Rows [][]struct {
			Col []int
			Val int
		} `json:"-"`
		RawRows [][]json.RawMessage `json:"rows"`
	} `json:"allowed"`
}

var headerSym = map[string]string{"a": "a", "b": "b", "A": "A", "B": "B", "sp": " ", "d": "-", "e": "\xc3\x89"} // É lower-cases to é: still outside a-z
var normSym = map[int]string{1: "_", 2: "a", 3: "b"}
var fieldVal = map[int]string{1: "plain", 2: "say \"hi\"", 3: "a,b", 4: "two\nlines", 5: "caf\xc3\xa9 \xe6\x97\xa5", 6: "",
	7: "bplain", 8: "aplain"} // 7, 8: column "a" + "bplain" = column "ab" + "plain"; "_" + "aplain" = "_a" + "plain"

func csvQuote(s string) string {
	if strings.ContainsAny(s, "\",\n") || s == "" {
		return "\"" + strings.ReplaceAll(s, "\"", "\"\"") + "\""
	}
	return s
}

// projection of an index: schema and, per column, per value the member rows (through counts and a
// group-by), as a canonical string.
func indexProjection(path string) (string, error) {
	idx, err := updog.OpenIndex(path)
	if err != nil {
		return "", err
	}
	defer idx.Close()
	var b strings.Builder
	sch := idx.GetSchema()
	for _, c := range sch.Columns {
		fmt.Fprintf(&b, "col %q:", c.Name)
		for _, v := range c.Values {
			res, err := idx.Execute(&updog.Query{Expr: &updog.ExprEqual{Column: c.Name, Value: v.Value}})
			if err != nil {
				return "", err
			}
			fmt.Fprintf(&b, " %q=%d", v.Value, res.Count)
			// membership: which other (column,value) pairs co-occur
			for _, c2 := range sch.Columns {
				r2, _ := idx.Execute(&updog.Query{Expr: &updog.ExprEqual{Column: c.Name, Value: v.Value}, GroupBy: []string{c2.Name}})
				for _, g := range r2.Groups {
					fmt.Fprintf(&b, "[%q:%q:%d]", c2.Name, g.Fields[0].Value, g.Count)
				}
			}
		}
		b.WriteString("\n")
	}
	if len(sch.Columns) > 0 {
		l := &updog.ExprEqual{Column: sch.Columns[0].Name, Value: "\x00none"}
		res, err := idx.Execute(&updog.Query{Expr: &updog.ExprNot{Expr: l}})
		if err != nil {
			return "", err
		}
		fmt.Fprintf(&b, "total %d\n", res.Count)
	}
	return b.String(), nil
}

// projectionOfRows: the string indexProjection must produce for an index holding exactly these rows.
func projectionOfRows(rows []map[string]string) string {
	colSet := map[string]map[string]bool{}
	for _, r := range rows {
		for c, v := range r {
			if colSet[c] == nil {
				colSet[c] = map[string]bool{}
			}
			colSet[c][v] = true
		}
	}
	var cols []string
	for c := range colSet {
		cols = append(cols, c)
	}
	sort.Strings(cols)
	sortedVals := func(c string) []string {
		var vs []string
		for v := range colSet[c] {
			vs = append(vs, v)
		}
		sort.Strings(vs)
		return vs
	}
	var b strings.Builder
	for _, c := range cols {
		fmt.Fprintf(&b, "col %q:", c)
		for _, v := range sortedVals(c) {
			n := 0
			for _, r := range rows {
				if rv, ok := r[c]; ok && rv == v {
					n++
				}
			}
			fmt.Fprintf(&b, " %q=%d", v, n)
			for _, c2 := range cols {
				for _, v2 := range sortedVals(c2) {
					k := 0
					for _, r := range rows {
						if rv, ok := r[c]; ok && rv == v {
							if rv2, ok2 := r[c2]; ok2 && rv2 == v2 {
								k++
							}
						}
					}
					if k > 0 {
						fmt.Fprintf(&b, "[%q:%q:%d]", c2, v2, k)
					}
				}
			}
		}
		b.WriteString("\n")
	}
	if len(cols) > 0 {
		fmt.Fprintf(&b, "total %d\n", len(rows))
	}
	return b.String()
}

// replay-cli (C19): every TLC-enumerated (CSV, mode, pre-existing output) through the built binary.
func replayCLI(args []string) error {
	fs := flag.NewFlagSet("replay-cli", flag.ExitOnError)
	in := fs.String("in", "", "ndjson from MC_CLI")
	bin := fs.String("updog", "", "updog binary")
	stride := fs.Int("stride", 1, "every n-th case")
	preSel := fs.String("pre", "any", "any | occupied (only cases whose output path is already taken)")
	fs.Parse(args)
	dir := vx.Scratch("replaycli")
	defer os.RemoveAll(dir)
	rep := &vx.Report{}
	n := 0
	srng := rand.New(rand.NewSource(int64(*stride)*7919 + 3))
	vrng := rand.New(rand.NewSource(int64(*stride) + 17)) // which cases run with -v: independent of the enumeration order
	err := vx.ReadLines(*in, func(line []byte) error {
		var c cliCase
		if err := json.Unmarshal(line, &c); err != nil {
			return err
		}
		if c.Tag != "cli" {
			return nil
		}
		if *preSel == "occupied" && c.Pre == "absent" {
			return nil
		}
		n++
		if *stride > 1 && srng.Intn(*stride) != 0 { // a random 1/stride sample: a fixed step would alias with the enumeration order
			return nil
		}
		rep.Behaviours++
		// concretise the CSV
		var csvb bytes.Buffer
		var hdr []string
		for _, h := range c.Header {
			s := ""
			for _, sym := range h {
				s += headerSym[sym]
			}
			hdr = append(hdr, csvQuote(s))
		}
		csvb.WriteString(strings.Join(hdr, ",") + "\n")
		for ri, rec := range c.Records {
			var fs []string
			for _, f := range rec {
				fs = append(fs, csvQuote(fieldVal[f]))
			}
			if c.Defect == "ragged" && ri == 1 {
				fs = append(fs, "extra")
			}
			lineS := strings.Join(fs, ",")
			if c.Defect == "barequote" && ri == 1 {
				lineS = "pl\"ain" + strings.Repeat(",x", len(rec)-1)
			}
			csvb.WriteString(lineS + "\n")
		}
		csvPath := vx.Join(dir, fmt.Sprintf("in%d.csv", n))
		outPath := vx.Join(dir, fmt.Sprintf("out%d.updog", n))
		os.WriteFile(csvPath, csvb.Bytes(), 0644)
		defer os.Remove(csvPath)
		defer os.Remove(outPath)
		linkTarget := ""
		switch c.Pre {
		case "other":
			// something that is not an index occupies the path: a junk file, or (every third case) a dangling symbolic link
			if vrng.Intn(3) == 0 {
				linkTarget = outPath + ".nowhere"
				os.Symlink(linkTarget, outPath)
				defer os.Remove(linkTarget)
			} else {
				os.WriteFile(outPath, []byte("not an index"), 0644)
			}
		case "index":
			w := updog.NewIndexWriter(outPath)
			w.AddRow(map[string]string{"a": "plain"})
			if err := w.Flush(); err != nil {
				return err
			}
		}
		preHash := vx.FileHash(outPath)
		// the global flag -v only adds progress messages: every other executed case runs with it, spelled both ways
		argv := []string{"create", "-o", outPath}
		if vrng.Intn(2) == 1 {
			argv = []string{[]string{"-v", "--verbose"}[vrng.Intn(2)], "create", "-o", outPath}
		}
		if c.Big {
			argv = append(argv, "-b")
		}
		// the input is a path: usually a regular file, every sixth case a pipe (/dev/stdin fed by the harness), which can be
		// read only once and not rewound
		piped := vrng.Intn(6) == 0
		if piped {
			argv = append(argv, "/dev/stdin")
		} else {
			argv = append(argv, csvPath)
		}
		cctx, cancel := context.WithTimeout(context.Background(), 20*time.Second)
		cmd := exec.CommandContext(cctx, *bin, argv...)
		if piped {
			pr, pw, perr := os.Pipe()
			if perr != nil {
				cancel()
				return perr
			}
			cmd.Stdin = pr
			data := append([]byte{}, csvb.Bytes()...)
			go func() { pw.Write(data); pw.Close() }()
			defer pr.Close()
		}
		cmd.Env = append(os.Environ(), "TMPDIR="+dir)
		var stderr bytes.Buffer
		cmd.Stderr = &stderr
		cmd.Stdout = &stderr
		err := cmd.Run()
		hung := cctx.Err() != nil
		cancel()
		rep.Steps++
		exit := 0
		if hung {
			exit = 124 // the command did not terminate
		} else if err != nil {
			exit = 1
			if ee, ok := err.(*exec.ExitError); ok && ee.ExitCode() > 1 {
				exit = ee.ExitCode() // a crash (exit status 2) is not the orderly failure the property allows
			}
		}
		// observed output state
		kind := "absent"
		proj := ""
		if linkTarget != "" {
			// the link must still be there, pointing where it pointed, and its target must not have been created
			kind = "replaced"
			if t, lerr := os.Readlink(outPath); lerr == nil && t == linkTarget {
				if _, terr := os.Stat(linkTarget); terr != nil {
					kind = "other"
				}
			}
		} else if _, serr := os.Stat(outPath); serr == nil {
			kind = "other"
			if p, perr := indexProjection(outPath); perr == nil {
				kind, proj = "index", p
			}
		}
		okCase := false
		for _, a := range c.Allowed {
			if a.Exit != exit || a.Kind != kind {
				continue
			}
			if c.Pre != "absent" {
				okCase = vx.FileHash(outPath) == preHash // an existing output is byte-for-byte untouched
				break
			}
			if kind != "index" {
				okCase = true
				break
			}
			// the projection the specification's rows prescribe, computed directly (no library in between)
			var specRows []map[string]string
			for _, raw := range a.RawRows {
				row := map[string]string{}
				for _, pr := range raw {
					var pair []json.RawMessage
					json.Unmarshal(pr, &pair)
					var name []int
					var val int
					json.Unmarshal(pair[0], &name)
					json.Unmarshal(pair[1], &val)
					s := ""
					for _, r := range name {
						s += normSym[r]
					}
					row[s] = fieldVal[val]
				}
				specRows = append(specRows, row)
			}
			okCase = projectionOfRows(specRows) == proj
			break
		}
		// `updog schema` succeeds exactly on an index
		if okCase {
			serr := exec.Command(*bin, "schema", "-f", outPath).Run()
			rep.Steps++
			if (serr == nil) != (kind == "index") {
				okCase = false
			}
		}
		if !okCase {
			keys := []string{}
			for _, a := range c.Allowed {
				keys = append(keys, fmt.Sprintf("exit=%d/%s", a.Exit, a.Kind))
			}
			sort.Strings(keys)
			rep.Mismatch(map[string]any{"kind": "cli", "csv": csvb.String(), "big": c.Big, "pre": c.Pre, "defect": c.Defect, "got_exit": exit, "got_out": kind, "allowed": keys, "projection": proj, "stderr": tail(stderr.String(), 300)})
		}
		if len(rep.Samples) < 3 && len(c.Records) > 0 && rep.Behaviours%53 == 1 {
			rep.Samples = append(rep.Samples, map[string]any{"csv": csvb.String(), "big": c.Big, "pre": c.Pre})
		}
		return nil
	})
	if err != nil {
		return err
	}
	if *preSel == "occupied" {
		rep.Print()
		return nil
	}
	// one large well-formed CSV through both modes: 8192 records, a column in blocks of exactly 4096
	var big bytes.Buffer
	big.WriteString("Parity,Block,Id\n")
	for i := 0; i < 8192; i++ {
		fmt.Fprintf(&big, "%s,b%d,r%d\n", []string{"even", "odd"}[i%2], i/4096, i)
	}
	csvPath := vx.Join(dir, "big.csv")
	os.WriteFile(csvPath, big.Bytes(), 0644)
	light := func(path string) (string, error) {
		idx, err := updog.OpenIndex(path)
		if err != nil {
			return "", err
		}
		defer idx.Close()
		var b strings.Builder
		for _, q := range [][2]string{{"parity", "even"}, {"parity", "odd"}, {"block", "b0"}, {"block", "b1"}, {"id", "r4095"}, {"id", "r4096"}, {"id", "r8191"}} {
			res, err := idx.Execute(&updog.Query{Expr: &updog.ExprEqual{Column: q[0], Value: q[1]}, GroupBy: []string{"block"}})
			if err != nil {
				fmt.Fprintf(&b, "%s=%s: error;", q[0], q[1])
				continue
			}
			fmt.Fprintf(&b, "%s=%s:%d%v;", q[0], q[1], res.Count, res.Groups)
		}
		return b.String(), nil
	}
	// expected answers, computed directly from the rows UpdogCLI prescribes (record i -> row i, one value per normalised
	// header): no reference index built by the library in between
	type bigRow struct{ parity, block, id string }
	var bigRows []bigRow
	for i := 0; i < 8192; i++ {
		bigRows = append(bigRows, bigRow{[]string{"even", "odd"}[i%2], fmt.Sprintf("b%d", i/4096), fmt.Sprintf("r%d", i)})
	}
	var wb strings.Builder
	for _, q := range [][2]string{{"parity", "even"}, {"parity", "odd"}, {"block", "b0"}, {"block", "b1"}, {"id", "r4095"}, {"id", "r4096"}, {"id", "r8191"}} {
		count := uint64(0)
		per := map[string]uint64{}
		for _, r := range bigRows {
			if map[string]string{"parity": r.parity, "block": r.block, "id": r.id}[q[0]] == q[1] {
				count++
				per[r.block]++
			}
		}
		groups := []updog.ResultGroup{}
		for _, blk := range []string{"b0", "b1"} {
			if per[blk] > 0 {
				groups = append(groups, updog.ResultGroup{Fields: []updog.ResultField{{Column: "block", Value: blk}}, Count: per[blk]})
			}
		}
		fmt.Fprintf(&wb, "%s=%s:%d%v;", q[0], q[1], count, groups)
	}
	want := wb.String()
	for _, bigMode := range []bool{false, true} {
		outPath := vx.Join(dir, fmt.Sprintf("big_%v.updog", bigMode))
		argv := []string{"create", "-o", outPath}
		if bigMode {
			argv = append(argv, "-b")
		}
		lctx, lcancel := context.WithTimeout(context.Background(), 120*time.Second)
		cmd := exec.CommandContext(lctx, *bin, append(argv, csvPath)...)
		cmd.Env = append(os.Environ(), "TMPDIR="+dir)
		rep.Steps++
		rep.Behaviours++
		err := cmd.Run()
		lcancel()
		if err != nil {
			rep.Mismatch(map[string]any{"kind": "cli", "defect": "none", "pre": "absent", "csv": "8192 records (blocks of 4096)", "big": bigMode, "problem": "create failed: " + err.Error()})
			continue
		}
		got, err := light(outPath)
		if err != nil || got != want {
			rep.Mismatch(map[string]any{"kind": "cli", "defect": "none", "pre": "absent", "csv": "8192 records (blocks of 4096)", "big": bigMode, "got": got, "want": want, "err": fmt.Sprint(err)})
		}
	}
	rep.Print()
	return nil
}
