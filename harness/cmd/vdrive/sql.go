package main

import (
	"database/sql"
	"encoding/json"
	"flag"
	"fmt"
	"go.etcd.io/bbolt"
	"math/rand"
	"os"
	"reflect"
	"strconv"
	"strings"
	"sync"
	"time"

	_ "github.com/akrennmair/updog/driver"
	"github.com/akrennmair/updog/internal/queryparser"
	"github.com/akrennmair/updog/zverif/internal/vx"
	pb "google.golang.org/protobuf/proto"
)

func init() {
	commands["replay-sql"] = replaySQL
	commands["replay-stmt"] = replayStmt
	commands["replay-sqlhist"] = replaySQLHist
	commands["record-sql-conc"] = recordSQLConc
}

var identCols = []string{"a", "b1", "c_x", "Zed"} // valid identifiers, byte-wise ascending: Zed < a < b1 < c_x

func identDict(rng *rand.Rand, nvals int) *vx.Dict {
	return identDictU(rng, nvals, false)
}

// identDictU: utf8Only leaves out byte strings that are not valid UTF-8 (protobuf string fields
// cannot carry them; see the C13 known finding).
func identDictU(rng *rand.Rand, nvals int, utf8Only bool) *vx.Dict {
	cols := []string{"Zed", "a", "b1", "c_x"}
	pool := []string{"", "x", "a\"b", "\"", "line\nbreak", "caf\xc3\xa9", "a b", "$1", ";", "0"}
	if !utf8Only {
		pool = append(pool, "\xff")
	}
	vals := vx.PickSorted(rng, pool, nvals, func(i int) string { return fmt.Sprintf("v%03d", i) })
	vals[0] = "" // the empty string is always a value (it is the smallest, so the order stays strict): col = "" must mean it
	return vx.NewDict(cols, vals)
}

// wsDict: values that differ only in the white space inside them (and around them)
func wsDict() *vx.Dict {
	return vx.NewDict([]string{"Zed", "a", "b1", "c_x"}, []string{" a b", "a\tb", "a  b", "a b", "a b "})
}

// render writes a rank expression as query text (own renderer; not the formatter under test).
func render(d *vx.Dict, e *vx.Expr, top bool) string {
	switch e.Op {
	case "eq":
		return d.Col(e.Col) + " = \"" + strings.ReplaceAll(d.Val(e.Val), "\"", "\"\"") + "\""
	case "ph":
		if e.Ph >= 8 {
			return fmt.Sprintf("%s = $0%d", d.Col(e.Col), e.Ph) // the grammar's number is digit{digit}: leading zeros are legal
		}
		return fmt.Sprintf("%s = $%d", d.Col(e.Col), e.Ph)
	case "not":
		return "^ " + render(d, e.E, false)
	}
	sep := map[string]string{"and": " & ", "or": " | "}[e.Op]
	var parts []string
	for _, s := range e.Es {
		parts = append(parts, render(d, s, false))
	}
	s := strings.Join(parts, sep)
	if !top || len(e.Es) == 1 {
		s = "( " + s + " )"
	}
	return s
}

func renderQuery(d *vx.Dict, q vx.Query) string {
	s := render(d, q.E, true)
	if len(q.GB) > 0 {
		var fs []string
		for _, c := range q.GB {
			fs = append(fs, d.Col(c))
		}
		s += " ; " + strings.Join(fs, ", ")
	}
	return s
}

// sqlRows is what database/sql shows for one query.
type sqlRows struct {
	Err   bool       `json:"err"`
	Panic string     `json:"panic,omitempty"`
	Cols  []string   `json:"cols"`
	Types []string   `json:"types"`
	Rows  [][]string `json:"rows"` // values rendered with %v; the count column as decimal
	Nulls bool       `json:"nulls"`
}

func collect(rows *sql.Rows, err error) sqlRows {
	out := sqlRows{Rows: [][]string{}}
	if err != nil {
		out.Err = true
		return out
	}
	defer rows.Close()
	cols, _ := rows.Columns()
	out.Cols = cols
	cts, _ := rows.ColumnTypes()
	for _, ct := range cts {
		out.Types = append(out.Types, ct.DatabaseTypeName())
	}
	for rows.Next() {
		vals := make([]any, len(cols))
		ptrs := make([]any, len(cols))
		for i := range vals {
			ptrs[i] = &vals[i]
		}
		if err := rows.Scan(ptrs...); err != nil {
			out.Err = true
			return out
		}
		r := make([]string, len(cols))
		for i, v := range vals {
			if v == nil {
				out.Nulls = true
				r[i] = "<nil>"
			} else if b, ok := v.([]byte); ok {
				r[i] = string(b)
			} else {
				r[i] = fmt.Sprint(v)
			}
		}
		out.Rows = append(out.Rows, r)
	}
	if rows.Err() != nil {
		out.Err = true
	}
	return out
}

func safeQuery(db *sql.DB, text string, args ...any) sqlRows {
	var out sqlRows
	if p := vx.Safely(func() {
		rows, err := db.Query(text, args...)
		out = collect(rows, err)
	}); p != nil {
		out = sqlRows{Panic: p.Value + " @ " + p.Stack, Rows: [][]string{}}
	}
	return out
}

// expectRows is RowsOf / ColsOf of the specification, concretised through the dictionary.
func expectRows(d *vx.Dict, res vx.Res, gb []int) sqlRows {
	out := sqlRows{Rows: [][]string{}}
	if !res.Ok {
		out.Err = true
		return out
	}
	for _, c := range gb {
		out.Cols = append(out.Cols, d.Col(c))
		out.Types = append(out.Types, "TEXT")
	}
	out.Cols = append(out.Cols, "count")
	out.Types = append(out.Types, "BIGINT")
	if len(gb) > 0 {
		for _, g := range res.Groups {
			var r []string
			for _, v := range g.Vals {
				r = append(r, d.Val(v))
			}
			out.Rows = append(out.Rows, append(r, fmt.Sprint(g.Count)))
		}
	} else {
		out.Rows = append(out.Rows, []string{fmt.Sprint(res.Count)})
	}
	return out
}

func sameRows(a, b sqlRows) bool {
	if a.Panic != "" || b.Panic != "" {
		return false
	}
	if a.Err || b.Err {
		return a.Err == b.Err
	}
	return !a.Nulls && reflect.DeepEqual(a.Cols, b.Cols) && reflect.DeepEqual(a.Types, b.Types) && reflect.DeepEqual(a.Rows, b.Rows)
}

var dsnOpts = []string{"", "?preload=true", "?lrucache=true&lrucachesize=4096", "?preload=true&lrucache=true&lrucachesize=1000000"}

// replay-sql (C12): the library projection of every TLC-enumerated dataset through database/sql.
func replaySQL(args []string) error {
	fs := flag.NewFlagSet("replay-sql", flag.ExitOnError)
	in := fs.String("in", "", "ndjson from Gen_Lib")
	seed := fs.Int64("seed", 1, "seed")
	dictKind := fs.String("dict", "nasty", "nasty | ws (values differing only in white space) | countnames (columns called count, COUNT, counts)")
	schedFile := fs.String("sched", "", "ndjson from MC_Cursor: step orders of two result sets read at the same time")
	fs.Parse(args)
	rng := rand.New(rand.NewSource(*seed))
	dict := identDict(rng, 4)
	if *dictKind == "ws" {
		dict = wsDict()
	}
	if *dictKind == "countnames" {
		// column names that collide with the name of the count column (and near misses)
		dict = vx.NewDict([]string{"COUNT", "count", "counts", "d"}, dict.Vals)
	}
	var scheds [][]int
	if *schedFile != "" {
		if err := vx.ReadLines(*schedFile, func(line []byte) error {
			var sl struct {
				Tag   string `json:"tag"`
				Order []int  `json:"order"`
			}
			if err := json.Unmarshal(line, &sl); err == nil && sl.Tag == "sched" {
				scheds = append(scheds, sl.Order)
			}
			return nil
		}); err != nil {
			return err
		}
	}
	nsched := 0
	dir := vx.Scratch("replaysql")
	defer os.RemoveAll(dir)
	rep := &vx.Report{Notes: map[string]any{"cols": dict.Cols, "vals": dict.Vals}}
	var qs []vx.Query
	var texts []string
	n := 0
	err := vx.ReadLines(*in, func(line []byte) error {
		var ds libDS
		if err := json.Unmarshal(line, &ds); err != nil {
			return err
		}
		if ds.Tag == "queries" {
			qs = ds.Qs
			for _, q := range qs {
				texts = append(texts, renderQuery(dict, q))
			}
			return nil
		}
		if ds.Tag != "ds" {
			return nil
		}
		rep.Behaviours++
		n++
		path, err := buildIndex(dict, dir, fmt.Sprintf("s%d.updog", n), []string{"mem", "big"}[n%2], ds.Rows)
		if err != nil {
			return err
		}
		defer os.Remove(path)
		for oi, opt := range dsnOpts {
			if (n+oi)%2 == 1 && rep.Behaviours > 40 {
				continue // every dataset with two of the four option strings (all four for the first 40)
			}
			db, err := sql.Open("updog", "file:"+path+opt)
			if err != nil {
				return err
			}
			for qi, q := range qs {
				rep.Steps++
				got := safeQuery(db, texts[qi])
				want := expectRows(dict, ds.Res[qi], q.GB)
				if !sameRows(got, want) {
					rep.Mismatch(map[string]any{"kind": "sql-rows", "dsn": opt, "rows": ds.Rows, "query": texts[qi], "got": got, "want": want})
				}
			}
			// a conjunction of 70 / 130 copies of one negated test means what the single negated test means (a long flat
			// exclusion list is an ordinary query)
			if len(qs) > 0 && (n+oi)%3 == 0 {
				for qi, q := range qs {
					if q.E.Op != "not" || len(q.GB) > 0 {
						continue
					}
					one := safeQuery(db, texts[qi])
					for _, width := range []int{70, 130} {
						wide := &vx.Expr{Op: "and"}
						for k := 0; k < width; k++ {
							wide.Es = append(wide.Es, q.E)
						}
						rep.Steps++
						if got := safeQuery(db, renderQuery(dict, vx.Query{E: wide})); !sameRows(got, one) {
							rep.Mismatch(map[string]any{"kind": "sql-wide-exclusion-list", "dsn": opt, "rows": ds.Rows, "operand": texts[qi], "copies": width, "got": got, "want": one})
						}
					}
					break
				}
			}
			// two result sets of this handle read at the same time, in the step orders TLC enumerated (UpdogCursor)
			if len(scheds) > 0 && len(ds.Rows) >= 2 {
				for k := 0; k < 6; k++ {
					qa, qb := (n*3+k*5)%len(qs), (n*7+k*11+1)%len(qs)
					sched := scheds[nsched%len(scheds)]
					nsched++
					rep.Steps++
					ga, gb := overlapped(db, texts[qa], texts[qb], sched)
					wa, wb := expectRows(dict, ds.Res[qa], qs[qa].GB), expectRows(dict, ds.Res[qb], qs[qb].GB)
					if !sameRows(ga, wa) || !sameRows(gb, wb) {
						rep.Mismatch(map[string]any{"kind": "sql-overlapping-result-sets", "dsn": opt, "rows": ds.Rows, "queryA": texts[qa], "queryB": texts[qb], "order": sched,
							"gotA": ga, "wantA": wa, "gotB": gb, "wantB": wb})
						break
					}
				}
			}
			db.Close()
		}
		if len(rep.Samples) < 2 && len(ds.Rows) >= 2 {
			rep.Samples = append(rep.Samples, map[string]any{"rows": ds.Rows, "query": texts[len(texts)/3], "expected": expectRows(dict, ds.Res[len(texts)/3], qs[len(texts)/3].GB)})
		}
		return nil
	})
	if err != nil {
		return err
	}
	rep.Print()
	return nil
}

// sqlCursor reads one result set step by step: open, one row per step, end.
type sqlCursor struct {
	text string
	st   int // 0 idle, 1 open, 2 done
	rows *sql.Rows
	got  sqlRows
}

func (c *sqlCursor) step(db *sql.DB) {
	if p := vx.Safely(func() {
		switch c.st {
		case 0:
			rows, err := db.Query(c.text)
			c.got = sqlRows{Rows: [][]string{}}
			if err != nil {
				c.got.Err, c.st = true, 2
				return
			}
			c.rows, c.st = rows, 1
			c.got.Cols, _ = rows.Columns()
			cts, _ := rows.ColumnTypes()
			for _, ct := range cts {
				c.got.Types = append(c.got.Types, ct.DatabaseTypeName())
			}
		case 1:
			if !c.rows.Next() {
				if c.rows.Err() != nil {
					c.got.Err = true
				}
				c.rows.Close()
				c.st = 2
				return
			}
			vals := make([]any, len(c.got.Cols))
			ptrs := make([]any, len(vals))
			for i := range vals {
				ptrs[i] = &vals[i]
			}
			if err := c.rows.Scan(ptrs...); err != nil {
				c.got.Err, c.st = true, 2
				c.rows.Close()
				return
			}
			r := make([]string, len(vals))
			for i, v := range vals {
				if v == nil {
					c.got.Nulls = true
					r[i] = "<nil>"
				} else if b, ok := v.([]byte); ok {
					r[i] = string(b)
				} else {
					r[i] = fmt.Sprint(v)
				}
			}
			c.got.Rows = append(c.got.Rows, r)
		}
	}); p != nil {
		c.got = sqlRows{Panic: p.Value}
		if c.rows != nil {
			vx.Safely(func() { c.rows.Close() })
		}
		c.st = 2
	}
}

// overlapped runs two queries on one handle, stepping their result sets in the given order (1 = first,
// 2 = second; a finished cursor is skipped; the order is repeated until both are done).
func overlapped(db *sql.DB, a, b string, order []int) (sqlRows, sqlRows) {
	cs := []*sqlCursor{{text: a}, {text: b}}
	for guard := 0; guard < 100000 && (cs[0].st != 2 || cs[1].st != 2); guard++ {
		i := order[guard%len(order)] - 1
		if cs[i].st == 2 {
			i = 1 - i
		}
		cs[i].step(db)
	}
	return cs[0].got, cs[1].got
}

type stmtLine struct {
	Tag   string   `json:"tag"`
	Rows  []vx.Row `json:"rows"`
	Tmpl  *vx.Expr `json:"tmpl"`
	GB    []int    `json:"gb"`
	Cases []struct {
		Args []int    `json:"args"`
		Outs []vx.Res `json:"outs"`
	} `json:"cases"`
}

func protoOf(d *vx.Dict, e *vx.Expr) *vx.QTree {
	switch e.Op {
	case "eq":
		return &vx.QTree{Op: "eq", Col: vx.BytesOf(d.Col(e.Col)), Val: vx.BytesOf(d.Val(e.Val))}
	case "ph":
		return &vx.QTree{Op: "eq", Col: vx.BytesOf(d.Col(e.Col)), Ph: e.Ph, Val: []int{}}
	case "not":
		return &vx.QTree{Op: "not", E: protoOf(d, e.E)}
	}
	t := &vx.QTree{Op: e.Op}
	for _, s := range e.Es {
		t.Es = append(t.Es, protoOf(d, s))
	}
	return t
}

// replay-stmt (C11): templates with placeholders x argument lists; every (template, args) through
// DB.Query, one prepared statement per template executed over a seeded sequence of argument lists,
// and ReplacePlaceholders directly with the template compared before / after.
func replayStmt(args []string) error {
	fs := flag.NewFlagSet("replay-stmt", flag.ExitOnError)
	in := fs.String("in", "", "ndjson from Gen_Stmt")
	seed := fs.Int64("seed", 1, "seed")
	dictKind := fs.String("dict", "seeded", "seeded | numeric (arguments bound as int64 / float64 / bool)")
	fs.Parse(args)
	rng := rand.New(rand.NewSource(*seed))
	dict := identDict(rng, 5)
	if *seed%2 == 1 {
		// argument strings whose blank-joined renderings coincide: ("x y","z") vs ("x","y z")
		dict = vx.NewDict([]string{"Zed", "a", "b1", "c_x"}, []string{"x", "x y", "y z", "z", "zz"})
	}
	if *dictKind == "numeric" {
		// values that callers bind as integers, floats and booleans
		dict = vx.NewDict([]string{"Zed", "a", "b1", "c_x"}, []string{"-7", "0", "1", "2.5", "true"})
	}
	dir := vx.Scratch("replaystmt")
	defer os.RemoveAll(dir)
	rep := &vx.Report{}
	var db *sql.DB
	stmtDSN := ""
	allowed := func(got sqlRows, outs []vx.Res, gb []int) bool {
		for _, o := range outs {
			if sameRows(got, expectRows(dict, o, gb)) {
				return true
			}
		}
		return false
	}
	argVals := func(a []int, asInt bool) []any {
		out := make([]any, len(a))
		for i, r := range a {
			out[i] = dict.Val(r)
			if *dictKind == "numeric" {
				// bound as Go values of their own type: the driver renders them (fmt.Sprint) to the same strings
				v := dict.Val(r)
				if n, err := strconv.ParseInt(v, 10, 64); err == nil && strconv.FormatInt(n, 10) == v {
					out[i] = []any{n, int(n), int32(n)}[(i+len(a))%3]
				} else if f, err := strconv.ParseFloat(v, 64); err == nil && fmt.Sprint(f) == v {
					out[i] = f
				} else if v == "true" || v == "false" {
					out[i] = v == "true"
				}
			}
		}
		return out
	}
	err := vx.ReadLines(*in, func(line []byte) error {
		var ln stmtLine
		if err := json.Unmarshal(line, &ln); err != nil {
			return err
		}
		if ln.Tag == "setup" {
			path, err := buildIndex(dict, dir, "stmt.updog", "mem", ln.Rows)
			if err != nil {
				return err
			}
			stmtDSN = "file:" + path + dsnOpts[int(*seed)%4]
			db, err = sql.Open("updog", stmtDSN)
			return err
		}
		if ln.Tag != "tmpl" {
			return nil
		}
		rep.Behaviours++
		text := renderQuery(dict, vx.Query{E: ln.Tmpl, GB: ln.GB})
		if rep.Behaviours%3 == 0 && stmtDSN != "" {
			// the application closes its handle and opens the same data source again: texts used before mean the same
			db.Close()
			var oerr error
			if db, oerr = sql.Open("updog", stmtDSN); oerr != nil {
				return oerr
			}
			if rep.Behaviours%2 == 0 {
				db.SetMaxIdleConns(0) // every use opens and closes a connection
			}
		}
		// (a) one-shot path
		for _, c := range ln.Cases {
			rep.Steps++
			got := safeQuery(db, text, argVals(c.Args, false)...)
			if !allowed(got, c.Outs, ln.GB) {
				rep.Mismatch(map[string]any{"kind": "stmt-query", "query": text, "args": c.Args, "got": got, "allowed": c.Outs})
			}
		}
		// (b) one prepared statement, many executions
		var stmt *sql.Stmt
		var perr error
		if p := vx.Safely(func() { stmt, perr = db.Prepare(text) }); p != nil || perr != nil {
			rep.Mismatch(map[string]any{"kind": "stmt-prepare", "query": text, "err": fmt.Sprint(perr, p)})
			return nil
		}
		for k := 0; k < 25; k++ {
			c := ln.Cases[rng.Intn(len(ln.Cases))]
			rep.Steps++
			var got sqlRows
			if p := vx.Safely(func() {
				rows, err := stmt.Query(argVals(c.Args, false)...)
				got = collect(rows, err)
			}); p != nil {
				got = sqlRows{Panic: p.Value}
			}
			// database/sql itself rejects a wrong argument count for prepared statements
			outs := c.Outs
			if !allowed(got, outs, ln.GB) && !(got.Err && len(c.Args) != maxPh(ln.Tmpl)) {
				rep.Mismatch(map[string]any{"kind": "stmt-prepared", "query": text, "execution": k + 1, "args": c.Args, "got": got, "allowed": outs})
				break
			}
		}
		// every ordered pair of exact-length argument lists, executed back to back
		if mp := maxPh(ln.Tmpl); mp >= 1 && mp <= 2 {
			var exact []int
			for ci, c := range ln.Cases {
				if len(c.Args) == mp {
					exact = append(exact, ci)
				}
			}
		pairs:
			for _, i := range exact {
				for _, j := range exact {
					for _, ci := range []int{i, j} {
						c := ln.Cases[ci]
						rep.Steps++
						var got sqlRows
						if p := vx.Safely(func() {
							rows, err := stmt.Query(argVals(c.Args, false)...)
							got = collect(rows, err)
						}); p != nil {
							got = sqlRows{Panic: p.Value}
						}
						if !allowed(got, c.Outs, ln.GB) {
							rep.Mismatch(map[string]any{"kind": "stmt-prepared-pair", "query": text, "first": ln.Cases[i].Args, "second": ln.Cases[j].Args, "args": c.Args, "got": got, "allowed": c.Outs})
							break pairs
						}
					}
				}
			}
		}
		stmt.Close()
		// (c) ReplacePlaceholders leaves the parsed query untouched
		tq, err := queryparser.ParseQuery(text)
		if err != nil {
			rep.Mismatch(map[string]any{"kind": "stmt-parse", "query": text, "err": err.Error()})
			return nil
		}
		before := pb.Clone(tq)
		for _, c := range ln.Cases {
			if len(c.Args) < maxPh(ln.Tmpl) {
				continue
			}
			var vals []string
			for _, a := range c.Args {
				vals = append(vals, dict.Val(a))
			}
			bound := queryparser.ReplacePlaceholders(tq, vals)
			if !pb.Equal(before, tq) {
				rep.Mismatch(map[string]any{"kind": "stmt-template-mutated", "query": text, "args": c.Args})
				break
			}
			want := protoOf(dict, bindExpr(ln.Tmpl, c.Args))
			if !vx.FromProto(bound.Expr).Equal(want) {
				rep.Mismatch(map[string]any{"kind": "stmt-bind", "query": text, "args": c.Args, "got": vx.FromProto(bound.Expr), "want": want})
				break
			}
		}
		if len(rep.Samples) < 3 {
			rep.Samples = append(rep.Samples, map[string]any{"query": text, "case": ln.Cases[len(ln.Cases)/2]})
		}
		return nil
	})
	if err != nil {
		return err
	}
	if db != nil {
		db.Close()
	}
	rep.Print()
	return nil
}

func maxPh(e *vx.Expr) int {
	switch e.Op {
	case "ph":
		return e.Ph
	case "not":
		return maxPh(e.E)
	}
	m := 0
	for _, s := range e.Es {
		if x := maxPh(s); x > m {
			m = x
		}
	}
	return m
}

func bindExpr(e *vx.Expr, args []int) *vx.Expr {
	switch e.Op {
	case "ph":
		return &vx.Expr{Op: "eq", Col: e.Col, Val: args[e.Ph-1]}
	case "eq":
		return e
	case "not":
		return &vx.Expr{Op: "not", E: bindExpr(e.E, args)}
	}
	x := &vx.Expr{Op: e.Op}
	for _, s := range e.Es {
		x.Es = append(x.Es, bindExpr(s, args))
	}
	return x
}

// ---------------------------------------------------------------- C17: handle histories

type histLine struct {
	Tag   string `json:"tag"`
	Steps []struct {
		Op   string `json:"op"`
		D    int    `json:"d"`
		F    int    `json:"f"`
		O    int    `json:"o"`
		Out  string `json:"out"`
		Free []int  `json:"free"` // files whose lock must be free after the step
	} `json:"steps"`
}

// replay-sqlhist (C17): TLC-generated sequential histories over {sql.Open, Query, Close} through
// database/sql with a watchdog; after each step every file the model says is released is probed.
func replaySQLHist(args []string) error {
	fs := flag.NewFlagSet("replay-sqlhist", flag.ExitOnError)
	in := fs.String("in", "", "ndjson from Gen_SQL")
	seed := fs.Int64("seed", 1, "seed")
	fs.Parse(args)
	rng := rand.New(rand.NewSource(*seed))
	dict := identDict(rng, 4)
	dir := vx.Scratch("replayhist")
	defer os.RemoveAll(dir)
	rep := &vx.Report{}
	unexpectedHangs := 0
	sawHang := false // a stuck call keeps the driver's mutex: nothing more can be learnt from this process
	// the two files differ in content: count(a = v1) is 2 in file 1 and 1 in file 2
	rowsOf := map[int][]vx.Row{1: {{{2, 1}, {3, 1}}, {{2, 1}}}, 2: {{{2, 1}, {3, 1}}, {{2, 2}}, {{2, 2}, {3, 2}}}}
	wantOf := map[int]string{1: "2", 2: "1"}
	paths := map[int]string{}
	for f := 1; f <= 2; f++ {
		p, err := buildIndex(dict, dir, fmt.Sprintf("f%d.updog", f), "mem", rowsOf[f])
		if err != nil {
			return err
		}
		paths[f] = p
	}
	optOf := map[int]string{1: "?lrucache=true&lrucachesize=100000", 2: "?preload=true&lrucache=true&lrucachesize=4096"}
	text := renderQuery(dict, vx.Query{E: &vx.Expr{Op: "eq", Col: 2, Val: 1}})
	err := vx.ReadLines(*in, func(line []byte) error {
		var ln histLine
		if err := json.Unmarshal(line, &ln); err != nil {
			return err
		}
		if ln.Tag != "hist" {
			return nil
		}
		rep.Behaviours++
		dbs := map[int]*sql.DB{}
		files := map[int]int{}
		for si, st := range ln.Steps {
			rep.Steps++
			outcome := "ok"
			switch st.Op {
			case "open":
				opt := optOf[st.O]
				if st.O == 1 && st.F == 2 {
					// the second file's option string carries three options, in another order: every handle on it
					// must still find the file's shared connection
					opt = "?lrucachesize=65536&preload=true&lrucache=true"
				}
				db, err := sql.Open("updog", "file:"+paths[st.F]+opt)
				if err != nil {
					outcome = "err"
				}
				if rng.Intn(2) == 0 {
					db.SetMaxOpenConns(1 + rng.Intn(2))
				}
				dbs[st.D] = db
				files[st.D] = st.F
			case "query":
				db := dbs[st.D]
				want := wantOf[files[st.D]]
				usePrep := rng.Intn(2) == 0
				o, _ := watchdog(20*time.Second, func() error {
					var got sqlRows
					if usePrep {
						stmt, err := db.Prepare(text)
						if err != nil {
							return err
						}
						defer stmt.Close()
						rows, err := stmt.Query()
						got = collect(rows, err)
					} else {
						rows, err := db.Query(text)
						got = collect(rows, err)
					}
					if got.Err || len(got.Rows) != 1 || got.Rows[0][0] != want {
						return fmt.Errorf("wrong rows %v", got)
					}
					return nil
				})
				outcome = o
			case "close":
				o, _ := watchdog(20*time.Second, func() error { return dbs[st.D].Close() })
				outcome = o
			case "reuse":
			}
			bad := ""
			if outcome != st.Out {
				bad = "outcome"
			} else {
				for _, f := range st.Free {
					if !lockFree(paths[f]) {
						bad = "file-not-released"
					}
				}
			}
			if outcome == "hang" {
				sawHang = true
			}
			if bad != "" {
				rep.Mismatch(map[string]any{"kind": "sqlhist-" + bad, "steps": ln.Steps[:si+1], "got": outcome})
				if outcome == "hang" && st.Out != "hang" {
					unexpectedHangs++
				}
				break
			}
		}
		if unexpectedHangs >= 3 {
			// a stuck call keeps the driver's mutex: every later history would only wait out the watchdog
			return errStopReplay
		}
		for _, db := range dbs {
			watchdog(2*time.Second, func() error { return db.Close() })
		}
		if len(rep.Samples) < 2 && rep.Behaviours%301 == 5 {
			rep.Samples = append(rep.Samples, ln.Steps)
		}
		return nil
	})
	if err != nil && err != errStopReplay {
		return err
	}
	// a query the index rejects (a misspelt column), repeated: every attempt is answered with an error, none hangs
	if !sawHang {
		bad := renderQuery(dict, vx.Query{E: &vx.Expr{Op: "eq", Col: 4, Val: 1}})
		badGB := renderQuery(dict, vx.Query{E: &vx.Expr{Op: "eq", Col: 2, Val: 1}, GB: []int{4}})
		db, _ := sql.Open("updog", "file:"+paths[1]+optOf[1])
	retry:
		for _, q := range []string{bad, badGB} {
			for attempt := 1; attempt <= 3; attempt++ {
				rep.Steps++
				o, _ := watchdog(15*time.Second, func() error {
					rows, err := db.Query(q)
					if err != nil {
						return err
					}
					rows.Close()
					return nil
				})
				if o != "err" {
					rep.Mismatch(map[string]any{"kind": "sqlhist-repeated-failing-query", "query": q, "attempt": attempt, "got": o, "want": "err"})
					sawHang = sawHang || o == "hang"
					break retry
				}
			}
		}
		if !sawHang {
			if o, _ := watchdog(10*time.Second, func() error { return db.Close() }); o == "hang" || !lockFree(paths[1]) {
				rep.Mismatch(map[string]any{"kind": "sqlhist-repeated-failing-query", "got": "handle not released after failing queries: " + o})
				sawHang = o == "hang"
			}
		}
	}
	// a data source whose file bbolt opens but that is not an index (an empty database, e.g. a placeholder created by a
	// deployment script): every use fails in an orderly way, again and again, and the file is not kept locked
	if !sawHang {
		junk := vx.Join(dir, "placeholder.updog")
		if jdb, jerr := bbolt.Open(junk, 0644, nil); jerr == nil {
			jdb.Close()
			for _, opt := range []string{"", "?preload=true", "?lrucache=true&lrucachesize=4096"} {
				db, _ := sql.Open("updog", "file:"+junk+opt)
				for attempt := 1; attempt <= 3; attempt++ {
					rep.Steps++
					o, _ := watchdog(15*time.Second, func() error {
						rows, err := db.Query(text)
						if err != nil {
							return err
						}
						rows.Close()
						return nil
					})
					if o != "err" {
						rep.Mismatch(map[string]any{"kind": "sqlhist-not-an-index", "dsn": opt, "attempt": attempt, "got": o, "want": "err"})
						break
					}
				}
				if o, _ := watchdog(10*time.Second, func() error { return db.Close() }); o == "hang" {
					rep.Mismatch(map[string]any{"kind": "sqlhist-not-an-index", "dsn": opt, "got": "Close hangs"})
					break
				}
				if !lockFree(junk) {
					rep.Mismatch(map[string]any{"kind": "sqlhist-not-an-index", "dsn": opt, "got": "file kept locked after the failed uses"})
					break
				}
			}
		}
	}
	rep.Print()
	return nil
}

var errStopReplay = fmt.Errorf("replay stopped after repeated hangs")

// record-sql-conc (C17): concurrent first use of fresh handles by up to 16 goroutines, repeated
// open / close cycles on two files; events for Trace_SQL.
func recordSQLConc(args []string) error {
	fs := flag.NewFlagSet("record-sql-conc", flag.ExitOnError)
	out := fs.String("out", "", "trace file")
	seed := fs.Int64("seed", 1, "seed")
	cycles := fs.Int("cycles", 10, "open/use/close cycles")
	fs.Parse(args)
	w, err := vx.NewNDWriter(*out)
	if err != nil {
		return err
	}
	rng := rand.New(rand.NewSource(*seed))
	dict := identDict(rng, 4)
	dir := vx.Scratch("recsqlconc")
	defer os.RemoveAll(dir)
	rowsOf := map[int][]vx.Row{1: {{{2, 1}, {3, 1}}, {{2, 1}}}, 2: {{{2, 1}, {3, 1}}, {{2, 2}}, {{2, 2}, {3, 2}}}}
	wantOf := map[int]string{1: "2", 2: "1"}
	paths := map[int]string{}
	for f := 1; f <= 2; f++ {
		p, err := buildIndex(dict, dir, fmt.Sprintf("f%d.updog", f), "mem", rowsOf[f])
		if err != nil {
			return err
		}
		paths[f] = p
	}
	text := renderQuery(dict, vx.Query{E: &vx.Expr{Op: "eq", Col: 2, Val: 1}})
	var mu sync.Mutex
	emit := func(m map[string]any) { mu.Lock(); w.Emit(m); mu.Unlock() }
	for c := 0; c < *cycles; c++ {
		emit(map[string]any{"ev": "Cycle"})
		nh := 1 + rng.Intn(2)
		dbs := make([]*sql.DB, nh)
		fileOf := make([]int, nh)
		for d := 0; d < nh; d++ {
			fileOf[d] = 1 + rng.Intn(2)
			if nh == 2 && d == 1 && rng.Intn(2) == 0 {
				fileOf[d] = fileOf[0] // two handles on the same file and option string share the connection
			}
			dbs[d], _ = sql.Open("updog", "file:"+paths[fileOf[d]]+"?lrucache=true&lrucachesize=100000")
			if rng.Intn(3) == 0 {
				dbs[d].SetMaxOpenConns(1 + rng.Intn(3))
			}
			emit(map[string]any{"ev": "SqlOpen", "d": d + 1, "f": fileOf[d], "o": 1})
		}
		ng := []int{2, 4, 8, 16}[rng.Intn(4)]
		// one prepared statement per handle, shared by all goroutines, executed with different arguments
		ptext := renderQuery(dict, vx.Query{E: &vx.Expr{Op: "ph", Col: 2, Ph: 1}})
		stmts := make([]*sql.Stmt, nh)
		for d := 0; d < nh; d++ {
			stmts[d], _ = dbs[d].Prepare(ptext)
		}
		wantArg := func(f, v int) string { // count(a = v) in file f
			n := 0
			for _, r := range rowsOf[f] {
				for _, p := range r {
					if p == [2]int{2, v} {
						n++
					}
				}
			}
			return fmt.Sprint(n)
		}
		var wg sync.WaitGroup
		hung := false
		for g := 0; g < ng; g++ {
			wg.Add(1)
			go func(g int) {
				defer wg.Done()
				d := g % nh
				for k := 0; k < 3; k++ {
					o, _ := watchdog(20*time.Second, func() error {
						got := safeQuery(dbs[d], text)
						if got.Panic != "" {
							panic(got.Panic)
						}
						if got.Err || len(got.Rows) != 1 || got.Rows[0][0] != wantOf[fileOf[d]] {
							return fmt.Errorf("wrong rows")
						}
						for it := 0; stmts[d] != nil && it < 40; it++ {
							v := 1 + (g+k+it)%3
							var pr sqlRows
							if p := vx.Safely(func() {
								rows, err := stmts[d].Query(dict.Val(v))
								pr = collect(rows, err)
							}); p != nil {
								panic(p.Value)
							}
							if pr.Err || len(pr.Rows) != 1 || pr.Rows[0][0] != wantArg(fileOf[d], v) {
								return fmt.Errorf("prepared statement with argument %d: wrong rows %v", v, pr.Rows)
							}
						}
						return nil
					})
					emit(map[string]any{"ev": "Query", "d": d + 1, "out": o})
					if o == "hang" {
						mu.Lock()
						hung = true
						mu.Unlock()
						return
					}
				}
			}(g)
		}
		wg.Wait()
		if hung {
			break // goroutines are stuck inside the driver; closing would hang as well
		}
		closeHung := false
		for d := 0; d < nh; d++ {
			if stmts[d] != nil {
				watchdog(20*time.Second, func() error { return stmts[d].Close() })
			}
			o, _ := watchdog(20*time.Second, func() error { return dbs[d].Close() })
			emit(map[string]any{"ev": "DBClose", "d": d + 1, "out": o})
			if o == "hang" {
				closeHung = true // the driver is wedged: every later call would hang as well
				break
			}
		}
		if closeHung {
			break
		}
		for f := 1; f <= 2; f++ {
			emit(map[string]any{"ev": "Probe", "f": f, "free": lockFree(paths[f])})
		}
	}
	return w.Close()
}
