package main

import (
	"database/sql"
	"encoding/json"
	"flag"
	"fmt"
	"math/rand"
	"os"
	"sync"
	"sync/atomic"
	"time"

	"github.com/RoaringBitmap/roaring"
	"github.com/akrennmair/updog"
	updogdriver "github.com/akrennmair/updog/driver"
	"github.com/akrennmair/updog/zverif/internal/vx"
)

func init() {
	commands["replay-sched"] = replaySched
	commands["record-conc-exec"] = recordConcExec
	commands["record-cs"] = recordCS
	commands["record-lru-conc"] = recordLRUConc
}

type schedLine struct {
	Tag    string         `json:"tag"`
	Rows   []vx.Row       `json:"rows"`
	Qs     []*vx.Expr     `json:"qs"`
	Order  []int          `json:"order"`
	Counts []uint64       `json:"counts"`
	Ctr    map[string]int `json:"ctr"`
}

// gateCache blocks every cache call of a registered goroutine at a gate before performing it.
type gateCache struct {
	inner updog.Cache
	g     *vx.Gates
}

func (c *gateCache) Get(key uint64) (*roaring.Bitmap, bool) {
	c.g.Arrive()
	return c.inner.Get(key)
}
func (c *gateCache) Put(key uint64, bm *roaring.Bitmap) {
	c.g.Arrive()
	c.inner.Put(key, bm)
}

// replay-sched (C04): TLC-generated interleavings of the threads' cache calls are replayed on
// the real index: each goroutine is gated before every cache call and released in TLC's order.
func replaySched(args []string) error {
	fs := flag.NewFlagSet("replay-sched", flag.ExitOnError)
	in := fs.String("in", "", "ndjson from Gen_Conc")
	seed := fs.Int64("seed", 1, "seed")
	capacity := fs.Uint64("cap", 0, "real LRU capacity in bytes (0 or ample: hit/miss is overhead independent)")
	fs.Parse(args)
	rng := rand.New(rand.NewSource(*seed))
	dict := vx.SmallDict(rng, 4, 4)
	dir := vx.Scratch("replaysched")
	defer os.RemoveAll(dir)
	rep := &vx.Report{Notes: map[string]any{}}
	var setup schedLine
	var path string
	structural := 0
	stuck := false
	err := vx.ReadLines(*in, func(line []byte) error {
		var ln schedLine
		if err := json.Unmarshal(line, &ln); err != nil {
			return err
		}
		if ln.Tag == "setup" {
			setup = ln
			var err error
			path, err = buildIndex(dict, dir, "sched.updog", "mem", ln.Rows)
			return err
		}
		if ln.Tag != "sched" || stuck {
			return nil
		}
		rep.Behaviours++
		m := newMetered(*capacity)
		gates := vx.NewGates()
		mode := []string{"ondemand", "preload"}[rep.Behaviours%2]
		idx, err := openWith(path, mode, &gateCache{inner: m.c, g: gates})
		if err != nil {
			return err
		}
		n := len(setup.Qs)
		results := make([]vx.Res, n)
		var wg sync.WaitGroup
		for t := 1; t <= n; t++ {
			wg.Add(1)
			go func(t int) {
				defer wg.Done()
				gates.Register(t)
				results[t-1] = dict.ResOf(vx.Exec(idx, dict.ToQuery(vx.Query{E: setup.Qs[t-1]})))
				gates.Done()
			}(t)
		}
		// wait until every thread is at its first gate (or done)
		atGate := map[int]bool{}
		finished := map[int]bool{}
		for len(atGate)+len(finished) < n {
			tt, done, ok := gates.Wait(10 * time.Second)
			if !ok {
				return fmt.Errorf("threads did not reach their first gate")
			}
			if done {
				finished[tt] = true
			} else {
				atGate[tt] = true
			}
		}
		faithful := true
		hang := false
		// gated replay of TLC's order; if the released thread neither reaches its next gate nor finishes
		// (e.g. an implementation lets it wait for another thread's evaluation), the schedule is not
		// replayable step by step: fall back to releasing whatever is gated until everything finished
		waitShort := func(t int) bool {
			for {
				tt, done, ok := gates.Wait(1500 * time.Millisecond)
				if !ok {
					return false
				}
				if done {
					finished[tt] = true
					atGate[tt] = false
				} else {
					atGate[tt] = true
				}
				if tt == t {
					return true
				}
			}
		}
		for _, t := range ln.Order {
			rep.Steps++
			if !atGate[t] {
				faithful = false
				continue
			}
			atGate[t] = false
			gates.Release(t)
			if !waitShort(t) {
				faithful = false
				break
			}
		}
		// free run: release every gated thread until all have finished (20 s overall)
		deadline := time.Now().Add(20 * time.Second)
		for len(finished) < n {
			progressed := false
			for t := 1; t <= n; t++ {
				if atGate[t] {
					if len(finished) < n && faithful {
						faithful = false // the code takes more cache calls than the model
					}
					atGate[t] = false
					gates.Release(t)
					progressed = true
				}
			}
			tt, done, ok := gates.Wait(500 * time.Millisecond)
			if ok {
				if done {
					finished[tt] = true
					atGate[tt] = false
				} else {
					atGate[tt] = true
				}
				progressed = true
			}
			if !progressed && time.Now().After(deadline) {
				hang = true
				break
			}
		}
		if hang {
			rep.Mismatch(map[string]any{"kind": "sched-hang", "order": ln.Order})
			stuck = true // goroutines are leaked: no further schedules in this process
			return nil
		}
		wg.Wait()
		idx.Close()
		if !faithful {
			structural++
		}
		for t := 0; t < n; t++ {
			if !results[t].Ok || results[t].Count != ln.Counts[t] {
				rep.Mismatch(map[string]any{"kind": "sched-answer", "order": ln.Order, "thread": t + 1, "q": setup.Qs[t], "got": results[t], "want": ln.Counts[t], "mode": mode})
			}
		}
		if faithful && (m.get.n != ln.Ctr["get"] || m.put.n != ln.Ctr["put"] || m.hit.n != ln.Ctr["hit"] || m.miss.n != ln.Ctr["miss"]) {
			rep.Mismatch(map[string]any{"kind": "sched-counters", "order": ln.Order, "got": []int{m.get.n, m.put.n, m.hit.n, m.miss.n}, "want": ln.Ctr, "cap": *capacity})
		}
		if len(rep.Samples) < 2 {
			rep.Samples = append(rep.Samples, map[string]any{"order": ln.Order, "counts": ln.Counts})
		}
		return nil
	})
	if err != nil {
		return err
	}
	rep.Notes["structure_differs"] = structural
	rep.Print()
	return nil
}

// ---------------------------------------------------------------- stress recording (run the -race build)

// record-conc-exec (C04): 2..16 goroutines issue random overlapping queries and GetSchema on one
// index; every returned result is logged as a Trace_Lib Exec event (the index is immutable, so
// the sequential answer is the specification's answer whatever the interleaving).
func recordConcExec(args []string) error {
	fs := flag.NewFlagSet("record-conc-exec", flag.ExitOnError)
	out := fs.String("out", "", "trace file")
	seed := fs.Int64("seed", 1, "seed")
	runs := fs.Int("runs", 6, "scenarios")
	perG := fs.Int("per", 40, "queries per goroutine")
	fs.Parse(args)
	w, err := vx.NewNDWriter(*out)
	if err != nil {
		return err
	}
	dir := vx.Scratch("recconc")
	defer os.RemoveAll(dir)
	r := &libRec{out: w, rng: rand.New(rand.NewSource(*seed)), dir: dir, hashes: map[string]int{}, paths: map[int]string{}}
	for i := 0; i < *runs; i++ {
		rng := r.rng
		d := vx.SmallDict(rng, 4, 6)
		r.reset(d)
		gens := []colGen{
			{col: 1, present: 1, gen: func(int) int { return 1 + rng.Intn(4) }},
			{col: 2, present: 0.8, gen: func(int) int { return 1 + rng.Intn(5) }},
			{col: 3, present: 0.5, gen: func(int) int { return 1 + rng.Intn(2) }},
		}
		rows := genDataset(rng, 50+rng.Intn(3000), gens, 0)
		wr, ok := r.newWriter(1, kinds[i%3])
		if !ok {
			continue
		}
		r.addRows(1, wr, rows)
		if !r.flush(1, wr) {
			continue
		}
		cache := []string{"none", "lru", "lru"}[i%3]
		capacity := []uint64{0, 600, 1 << 22}[i%3]
		idx := r.open(1, modes[(i/3)%2], cache, capacity)
		if idx == nil {
			continue
		}
		var leaves [][2]int
		for c := 1; c <= 3; c++ {
			for v := 1; v <= 6; v++ {
				leaves = append(leaves, [2]int{c, v})
			}
		}
		// a shared pool of queries so that goroutines overlap on sub-expressions
		eg := &exprGen{rng: rng, leaves: leaves}
		var pool []vx.Query
		// a few wide nodes over all leaves in shuffled order, alone and nested: what every goroutine starts with
		for k := 0; k < 3; k++ {
			perm := rng.Perm(len(leaves))
			wideNode := &vx.Expr{Op: []string{"or", "and", "or"}[k]}
			for _, li := range perm[:12] {
				l := &vx.Expr{Op: "eq", Col: leaves[li][0], Val: leaves[li][1]}
				if k == 1 {
					l = &vx.Expr{Op: "not", E: l}
				}
				wideNode.Es = append(wideNode.Es, l)
			}
			if k == 2 {
				wideNode = &vx.Expr{Op: "and", Es: []*vx.Expr{{Op: "not", E: &vx.Expr{Op: "eq", Col: 1, Val: 6}}, wideNode}}
			}
			pool = append(pool, vx.Query{E: wideNode})
		}
		for k := 0; k < 25; k++ {
			var gb []int
			if rng.Intn(4) == 0 {
				gb = []int{1 + rng.Intn(3)}
			}
			pool = append(pool, vx.Query{E: eg.tree(1+rng.Intn(4), 1+rng.Intn(4)), GB: gb})
		}
		// queries that fail (a column no row has, at various depths): errors must be errors for every caller
		unk := &vx.Expr{Op: "eq", Col: 4, Val: 1}
		pool = append(pool, vx.Query{E: unk}, vx.Query{E: &vx.Expr{Op: "not", E: unk}},
			vx.Query{E: &vx.Expr{Op: "and", Es: []*vx.Expr{pool[0].E, {Op: "not", E: unk}}}},
			vx.Query{E: &vx.Expr{Op: "or", Es: []*vx.Expr{{Op: "and", Es: []*vx.Expr{unk, pool[1].E}}, pool[2].E}}},
			vx.Query{E: pool[3].E, GB: []int{4}})
		// the same *updog.Query values handed to every goroutine (a query kept in a variable and executed by many
		// request handlers): built once per run, so that their first executions overlap
		sharedQ := make([]*updog.Query, len(pool))
		for i, q := range pool {
			sharedQ[i] = d.ToQuery(q)
		}
		ng := []int{2, 4, 8, 16}[rng.Intn(4)]
		var mu sync.Mutex
		var wg sync.WaitGroup
		startAll := make(chan struct{})
		seeds := make([]int64, ng)
		for g := range seeds {
			seeds[g] = rng.Int63()
		}
		for g := 0; g < ng; g++ {
			wg.Add(1)
			go func(g int) {
				defer wg.Done()
				lr := rand.New(rand.NewSource(seeds[g]))
				<-startAll
				for k := 0; k < *perG; k++ {
					qi := lr.Intn(len(pool))
					if k < 6 {
						qi = k // everybody starts with the same few (wide) queries
					}
					if lr.Intn(3) == 0 && k >= 6 {
						qi = len(pool) - 1 - lr.Intn(5) // the failing ones, often and at the same time
					}
					q := pool[qi]
					if lr.Intn(10) == 0 {
						idx.GetSchema()
					}
					uq := d.ToQuery(q)
					if k < 6 || lr.Intn(2) == 0 {
						uq = sharedQ[qi]
					}
					res := d.ResOf(vx.Exec(idx, uq))
					gb := q.GB
					if gb == nil {
						gb = []int{}
					}
					mu.Lock()
					w.Emit(map[string]any{"ev": "Exec", "p": 1, "e": q.E, "gb": gb, "res": res, "fh": -1, "g": g})
					mu.Unlock()
				}
			}(g)
		}
		close(startAll)
		if !waitOr(&wg, 90*time.Second) {
			// the goroutines never came back (a deadlock in the code under test): the trace ends with an event no
			// action of the specification matches
			mu.Lock()
			w.Emit(map[string]any{"ev": "Hang", "what": "concurrent Execute calls did not return within 90 s"})
			mu.Unlock()
			return w.Close()
		}
		r.schema(1, idx)
		r.close(1, idx)
	}
	return w.Close()
}

// waitOr waits for wg at most d; false means the goroutines are stuck (a deadlock of the code under test).
func waitOr(wg *sync.WaitGroup, d time.Duration) bool {
	done := make(chan struct{})
	go func() { wg.Wait(); close(done) }()
	select {
	case <-done:
		return true
	case <-time.After(d):
		return false
	}
}

// record-cs: critical-section probes through the verif hooks.  Goroutine A is held inside the
// critical section of a resource (the hook callback blocks while the code holds its lock) while
// goroutine B is sent towards the same critical section.  Events CS{t,r} / Rel{t,r} are written
// from inside the callbacks; Trace_CS's mutual-exclusion automaton rejects CS(B) between CS(A)
// and Rel(A).  A slow machine can only miss a detection, never produce one.
func recordCS(args []string) error {
	fs := flag.NewFlagSet("record-cs", flag.ExitOnError)
	out := fs.String("out", "", "trace file")
	rounds := fs.Int("rounds", 6, "probe rounds per resource")
	hold := fs.Int("holdms", 60, "how long A is held inside the critical section")
	only := fs.String("only", "", "probe only this resource (driver)")
	fs.Parse(args)
	w, err := vx.NewNDWriter(*out)
	if err != nil {
		return err
	}
	dir := vx.Scratch("reccs")
	defer os.RemoveAll(dir)
	var emu sync.Mutex
	emit := func(m map[string]any) {
		emu.Lock()
		w.Emit(m)
		emu.Unlock()
	}
	var gates *vx.Gates
	var holdT atomic.Int32 // the thread that is to be held at its next hook
	resOf := map[string]string{"lru.get": "lru", "lru.put": "lru", "writer.addrow": "writer", "bigwriter.addrow": "bigwriter", "driver.open": "driver", "driver.close": "driver"}
	seen := map[string]int{}
	var smu sync.Mutex
	hook := func(site string, arg uint64) {
		res, ok := resOf[site]
		if !ok || gates == nil {
			return
		}
		t := gates.Thread()
		if t == 0 {
			return
		}
		smu.Lock()
		seen[res]++
		smu.Unlock()
		emit(map[string]any{"ev": "CS", "t": t, "r": res})
		if int(holdT.Load()) == t {
			holdT.Store(0)
			time.Sleep(time.Duration(*hold) * time.Millisecond) // still inside the lock of the code under test
		}
		emit(map[string]any{"ev": "Rel", "t": t, "r": res})
	}
	updog.VerifHook = hook
	updogdriver.VerifHook = hook
	hung := false
	probe := func(res string, fa, fb func()) {
		for i := 0; i < *rounds && !hung; i++ {
			emit(map[string]any{"ev": "Round", "r": res})
			gates = vx.NewGates()
			holdT.Store(1)
			var wg sync.WaitGroup
			wg.Add(2)
			go func() { defer wg.Done(); gates.Register(1); fa() }()
			time.Sleep(time.Duration(*hold/4) * time.Millisecond) // let A get into the section first
			go func() { defer wg.Done(); gates.Register(2); fb() }()
			if !waitOr(&wg, 60*time.Second) {
				emit(map[string]any{"ev": "Hang", "r": res})
				hung = true
				return
			}
		}
	}
	if *only == "driver" {
		updog.VerifHook = nil
		return recordCSDriver(w, dir, probe, seen)
	}
	// LRU cache
	c := updog.NewLRUCache(1 << 20)
	bm := roaring.BitmapOf(1, 2, 3)
	probe("lru", func() { c.Put(1, bm) }, func() { c.Get(1) })
	probe("lru", func() { c.Get(1) }, func() { c.Put(2, bm) })
	probe("lru", func() { c.Put(3, bm) }, func() { c.Put(3, bm) })
	// writers
	iw := updog.NewIndexWriter(vx.Join(dir, "w.updog"))
	probe("writer", func() { iw.AddRow(map[string]string{"a": "1"}) }, func() { iw.AddRow(map[string]string{"a": "2"}) })
	bw, err := vx.NewWriter("big", vx.Join(dir, "b.updog"))
	if err != nil {
		return err
	}
	probe("bigwriter", func() { bw.AddRow(map[string]string{"a": "1"}) }, func() { bw.AddRow(map[string]string{"a": "2"}) })
	updog.VerifHook = nil
	updogdriver.VerifHook = nil
	bw.Flush() // commits the open temp transaction and releases both databases
	for _, res := range []string{"lru", "writer", "bigwriter"} {
		if seen[res] == 0 {
			return fmt.Errorf("hook site for %s never fired (hook missing?)", res)
		}
	}
	return w.Close()
}

// record-lru-conc: the real LRU cache driven directly from several goroutines in rounds of a few
// overlapping calls; call/ret events carry a process-wide sequence number taken under one mutex.
// Trace_LRUConc searches a linearisation of every round against the tolerant LRU relation.
func recordLRUConc(args []string) error {
	fs := flag.NewFlagSet("record-lru-conc", flag.ExitOnError)
	out := fs.String("out", "", "trace file")
	seed := fs.Int64("seed", 1, "seed")
	runs := fs.Int("runs", 10, "caches")
	roundsN := fs.Int("rounds", 30, "rounds per cache")
	fs.Parse(args)
	w, err := vx.NewNDWriter(*out)
	if err != nil {
		return err
	}
	rng := rand.New(rand.NewSource(*seed))
	var emu sync.Mutex
	emit := func(m map[string]any) {
		emu.Lock()
		w.Emit(m)
		emu.Unlock()
	}
	for r := 0; r < *runs; r++ {
		lruKeyMode = r // one key map per cache (see ck)
		max := []uint64{0, 300, 1000, 5000, 1 << 20}[rng.Intn(5)]
		c := updog.NewLRUCache(max)
		emit(map[string]any{"ev": "NewCache", "max": max})
		var idmu sync.Mutex
		ids := map[*roaring.Bitmap]int{}
		next := 0
		nth := 2 + rng.Intn(3)
		for round := 0; round < *roundsN; round++ {
			var wg sync.WaitGroup
			type op struct {
				put  bool
				k    int
				size int
			}
			ops := make([][]op, nth)
			for t := range ops {
				for j := 0; j < 1+rng.Intn(2); j++ {
					ops[t] = append(ops[t], op{put: rng.Intn(2) == 0, k: 1 + rng.Intn(4), size: []int{8, 90, 200, 500, 2010}[rng.Intn(5)]})
				}
			}
			for t := 0; t < nth; t++ {
				wg.Add(1)
				go func(t int) {
					defer wg.Done()
					for _, o := range ops[t] {
						if o.put {
							b := bitmapOfSize(o.size)
							idmu.Lock()
							next++
							id := next
							ids[b] = id
							idmu.Unlock()
							emit(map[string]any{"ev": "Call", "t": t + 1, "op": "put", "k": o.k, "size": b.GetSizeInBytes(), "bm": id})
							c.Put(ck(o.k), b)
							emit(map[string]any{"ev": "Ret", "t": t + 1, "hit": false, "bm": 0})
						} else {
							emit(map[string]any{"ev": "Call", "t": t + 1, "op": "get", "k": o.k, "size": 0, "bm": 0})
							b, ok := c.Get(ck(o.k))
							id := 0
							if ok {
								idmu.Lock()
								var known bool
								if id, known = ids[b]; !known {
									id = -1
								}
								idmu.Unlock()
							}
							emit(map[string]any{"ev": "Ret", "t": t + 1, "hit": ok, "bm": id})
						}
					}
				}(t)
			}
			if !waitOr(&wg, 60*time.Second) {
				emit(map[string]any{"ev": "Hang", "what": "concurrent Get/Put did not return within 60 s"})
				return w.Close()
			}
		}
		// quiescent sweep pins the final state down
		for k := 1; k <= 4; k++ {
			emit(map[string]any{"ev": "Call", "t": 1, "op": "get", "k": k, "size": 0, "bm": 0})
			b, ok := c.Get(ck(k))
			id := 0
			if ok {
				id = ids[b]
			}
			emit(map[string]any{"ev": "Ret", "t": 1, "hit": ok, "bm": id})
		}
	}
	return w.Close()
}

// recordCSDriver probes the sql driver's critical sections: goroutine A is held inside openFile
// (between the cache lookup and OpenIndex) or inside fileConn.Close while B opens / closes too.
func recordCSDriver(w *vx.NDWriter, dir string, probe func(res string, fa, fb func()), seen map[string]int) error {
	rng := rand.New(rand.NewSource(1))
	dict := identDict(rng, 3)
	rows := []vx.Row{{{2, 1}}, {{2, 2}}}
	n := 0
	fresh := func() *sql.DB {
		n++
		p, err := buildIndex(dict, dir, fmt.Sprintf("cs%d.updog", n), "mem", rows)
		if err != nil {
			panic(err)
		}
		db, _ := sql.Open("updog", "file:"+p)
		return db
	}
	text := renderQuery(dict, vx.Query{E: &vx.Expr{Op: "eq", Col: 2, Val: 1}})
	q := func(db *sql.DB) func() { return func() { safeQuery(db, text) } }
	// open vs open (different files: the same driver mutex must cover both)
	a, b := fresh(), fresh()
	probe("driver", q(a), q(b))
	// close vs open
	c := fresh()
	probe("driver", func() { a.Close() }, q(c))
	// close vs close
	probe("driver", func() { b.Close() }, func() { c.Close() })
	updogdriver.VerifHook = nil
	if seen["driver"] == 0 {
		return fmt.Errorf("driver hook never fired (hook missing?)")
	}
	return w.Close()
}
