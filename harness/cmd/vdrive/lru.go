package main

import (
	"encoding/json"
	"flag"
	"fmt"
	"math/rand"
	"sort"

	"github.com/RoaringBitmap/roaring"
	"github.com/akrennmair/updog"
	"github.com/akrennmair/updog/zverif/internal/vx"
)

func init() {
	commands["lru-sizes"] = lruSizes
	commands["replay-lru"] = replayLRU
	commands["record-lru"] = recordLRU
}

type counter struct{ n int }

func (c *counter) Inc() { c.n++ }

type meteredLRU struct {
	c                   *updog.LRUCache
	get, put, hit, miss counter
}

// ampleCap: a capacity so large that nothing is ever evicted may be spelled in many ways; callers use the largest
// numbers as "unbounded"
func ampleCap(max uint64, n int) uint64 {
	if max < 1<<20 {
		return max
	}
	return []uint64{max, 1 << 40, 1<<63 - 1, 1 << 63, 1<<64 - 1}[n%5]
}

func newMetered(max uint64) *meteredLRU {
	m := &meteredLRU{}
	m.c = updog.NewLRUCache(max, updog.WithCacheMetrics(&updog.CacheMetrics{CacheHit: &m.hit, CacheMiss: &m.miss, GetCall: &m.get, PutCall: &m.put}))
	return m
}

// The specification's keys are small numbers; the real cache sees them through one of several injective maps:
// themselves, keys that agree in their low 10 / 16 / 32 bits, scattered 64-bit values (what the hashes of real
// expressions look like).
var lruKeyMode int

func ck(k int) uint64 {
	switch lruKeyMode % 5 {
	case 1:
		return uint64(k)*1024 + 5
	case 2:
		return uint64(k)<<16 | 0xbeef
	case 3:
		return uint64(k)<<32 | 7
	case 4:
		return uint64(k) * 0x9e3779b97f4a7c15
	}
	return uint64(k)
}

// bitmapOfSize crafts a bitmap whose GetSizeInBytes is as close as possible to want.
func bitmapOfSize(want int) *roaring.Bitmap {
	b := roaring.New()
	if want <= 8 {
		return b
	}
	// array containers: 8 + per container (2 + 2n) .. measured below; add values until reached
	v := uint32(0)
	for int(b.GetSizeInBytes()) < want {
		b.Add(v)
		v += 3
		if v&0xffff > 12000 { // next container (array containers stay below 4096 values)
			v = (v>>16 + 1) << 16
		}
	}
	return b
}

var classWant = []int{8, 90, 4010, 12000}

func classBitmaps() []*roaring.Bitmap {
	var bs []*roaring.Bitmap
	for _, w := range classWant {
		bs = append(bs, bitmapOfSize(w))
	}
	return bs
}

func lruSizes(args []string) error {
	out := map[string]any{}
	var sz []uint64
	for _, b := range classBitmaps() {
		sz = append(sz, b.GetSizeInBytes())
	}
	out["sizes"] = sz
	b, _ := json.Marshal(out)
	fmt.Println(string(b))
	return nil
}

type lruOp struct {
	Op  string `json:"op"`
	K   int    `json:"k"`
	Cl  int    `json:"cl"`
	Hit bool   `json:"hit"`
	Bm  int    `json:"bm"`
	Res []int  `json:"res"`
}

type lruBeh struct {
	Tag string         `json:"tag"`
	Max uint64         `json:"max"`
	Ctr map[string]int `json:"ctr"`
	Ops []lruOp        `json:"ops"`
}

// applyOps runs ops[0:n] on a fresh real cache; returns the cache, the bitmap stored by each
// Put (by op number) and the observations of each step.
func applyOps(max uint64, ops []lruOp, n int, classes []*roaring.Bitmap) (*meteredLRU, map[*roaring.Bitmap]int, []lruOp) {
	m := newMetered(max)
	ids := map[*roaring.Bitmap]int{}
	obs := make([]lruOp, n)
	for i := 0; i < n; i++ {
		op := ops[i]
		o := lruOp{Op: op.Op, K: op.K, Cl: op.Cl}
		if op.Op == "put" {
			b := classes[op.Cl-1].Clone()
			ids[b] = i + 1
			if p := vx.Safely(func() { m.c.Put(ck(op.K), b) }); p != nil {
				o.Bm = -99 // a panic of the cache: matches no expected observation
				obs[i] = o
				return m, ids, obs[:i+1]
			}
			o.Bm = i + 1
		} else {
			var b *roaring.Bitmap
			var ok bool
			if p := vx.Safely(func() { b, ok = m.c.Get(ck(op.K)) }); p != nil {
				o.Bm = -99
				obs[i] = o
				return m, ids, obs[:i+1]
			}
			o.Hit = ok
			if ok {
				id, known := ids[b]
				if !known {
					id = -1
				}
				o.Bm = id
			}
		}
		obs[i] = o
	}
	return m, ids, obs
}

func sweep(m *meteredLRU, keys []int) []int {
	res := []int{}
	for _, k := range keys {
		if _, ok := m.c.Get(ck(k)); ok {
			res = append(res, k)
		}
	}
	return res
}

// replay-lru: TLC-enumerated Put/Get sequences on the real LRUCache.  "det" behaviours are
// compared step by step (hit flag, identity of the returned bitmap, resident set after every
// prefix observed by replaying the prefix on a fresh cache and sweeping all keys, counters);
// "amb" behaviours are recorded as a trace for Trace_LRU.
func replayLRU(args []string) error {
	fs := flag.NewFlagSet("replay-lru", flag.ExitOnError)
	in := fs.String("in", "", "ndjson from Gen_LRU")
	amb := fs.String("amb", "", "trace file for ambiguous behaviours")
	nkeys := fs.Int("keys", 3, "number of keys")
	fs.Parse(args)
	classes := classBitmaps()
	keys := []int{}
	for k := 1; k <= *nkeys; k++ {
		keys = append(keys, k)
	}
	rep := &vx.Report{Notes: map[string]any{}}
	var tw *vx.NDWriter
	if *amb != "" {
		var err error
		if tw, err = vx.NewNDWriter(*amb); err != nil {
			return err
		}
	}
	nAmb := 0
	err := vx.ReadLines(*in, func(line []byte) error {
		var b lruBeh
		if err := json.Unmarshal(line, &b); err != nil {
			return err
		}
		rep.Behaviours++
		lruKeyMode = rep.Behaviours
		if b.Tag == "amb" {
			nAmb++
			if tw != nil {
				emitLRUTrace(tw, b.Max, b.Ops, classes, keys)
			}
			return nil
		}
		b.Max = ampleCap(b.Max, rep.Behaviours)
		m, _, obs := applyOps(b.Max, b.Ops, len(b.Ops), classes)
		for i, o := range obs {
			rep.Steps++
			want := b.Ops[i]
			bad := ""
			if o.Op == "get" && (o.Hit != want.Hit || (o.Hit && o.Bm != want.Bm)) {
				bad = "get"
			}
			if o.Bm == -99 {
				bad = "panic"
			}
			// resident set after this prefix
			m2, _, obs2 := applyOps(b.Max, b.Ops, i+1, classes)
			got := sweep(m2, keys)
			if len(obs2) > 0 && obs2[len(obs2)-1].Bm == -99 {
				bad = "panic"
			}
			if fmt.Sprint(got) != fmt.Sprint(append([]int{}, want.Res...)) {
				bad = "resident"
			}
			if bad != "" {
				rep.Mismatch(map[string]any{"kind": "lru-" + bad, "max": b.Max, "ops": b.Ops[:i+1], "got": o, "gotResident": got, "wantResident": want.Res})
				break
			}
		}
		if m.get.n != b.Ctr["get"] || m.put.n != b.Ctr["put"] || m.hit.n != b.Ctr["hit"] || m.miss.n != b.Ctr["miss"] {
			rep.Mismatch(map[string]any{"kind": "lru-counters", "max": b.Max, "ops": b.Ops, "got": []int{m.get.n, m.put.n, m.hit.n, m.miss.n}, "want": b.Ctr})
		}
		if len(rep.Samples) < 2 && rep.Behaviours%977 == 5 {
			rep.Samples = append(rep.Samples, b)
		}
		return nil
	})
	if err != nil {
		return err
	}
	rep.Notes["ambiguous"] = nAmb
	if tw != nil {
		tw.Close()
	}
	rep.Print()
	return nil
}

// emitLRUTrace records the real cache's behaviour on ops: after every prefix the resident set is
// revealed by a sweep on a replayed copy; the full run ends with a sweep and the counters.
func emitLRUTrace(tw *vx.NDWriter, max uint64, ops []lruOp, classes []*roaring.Bitmap, keys []int) {
	for n := 1; n <= len(ops); n++ {
		tw.Emit(map[string]any{"ev": "NewCache", "max": max})
		m, ids, obs := applyOps(max, ops, n, classes)
		for _, o := range obs {
			if o.Op == "put" {
				tw.Emit(map[string]any{"ev": "Put", "k": o.K, "size": classes[o.Cl-1].GetSizeInBytes(), "bm": o.Bm})
			} else {
				tw.Emit(map[string]any{"ev": "Get", "k": o.K, "hit": o.Hit, "bm": o.Bm})
			}
		}
		if n == len(ops) {
			tw.Emit(map[string]any{"ev": "Metrics", "get": m.get.n, "put": m.put.n, "hit": m.hit.n, "miss": m.miss.n})
		}
		for _, k := range keys {
			b, ok := m.c.Get(ck(k))
			id := 0
			if ok {
				id = ids[b]
			}
			tw.Emit(map[string]any{"ev": "Get", "k": k, "hit": ok, "bm": id})
		}
	}
}

// record-lru: random long Put/Get histories on the real cache for Trace_LRU.
func recordLRU(args []string) error {
	fs := flag.NewFlagSet("record-lru", flag.ExitOnError)
	out := fs.String("out", "", "trace file")
	seed := fs.Int64("seed", 1, "seed")
	runs := fs.Int("runs", 20, "histories")
	nops := fs.Int("ops", 400, "operations per history")
	fs.Parse(args)
	tw, err := vx.NewNDWriter(*out)
	if err != nil {
		return err
	}
	rng := rand.New(rand.NewSource(*seed))
	for r := 0; r < *runs; r++ {
		lruKeyMode = r
		nk := 3 + rng.Intn(14)
		max := []uint64{0, 40, 300, 1000, 5000, 20000, 1 << 20}[rng.Intn(7)]
		if rng.Intn(4) == 0 {
			max = uint64(rng.Intn(30000))
		}
		// size palette: 0 bytes .. larger than the capacity
		pal := []int{8, 12, 30, 90, 200, 500, 1000, 2010, 4010, 8202, int(max) / 2, int(max), int(max) + 50, 16400}
		m := newMetered(max)
		ids := map[*roaring.Bitmap]int{}
		tw.Emit(map[string]any{"ev": "NewCache", "max": max})
		n := *nops
		if r%5 == 4 {
			n *= 5
		}
		for i := 1; i <= n; i++ {
			k := 1 + rng.Intn(nk)
			if rng.Intn(3) == 0 { // skewed: recently used keys again
				k = 1 + rng.Intn(1+nk/3)
			}
			if rng.Intn(2) == 0 {
				b := bitmapOfSize(pal[rng.Intn(len(pal))])
				ids[b] = i
				m.c.Put(ck(k), b)
				tw.Emit(map[string]any{"ev": "Put", "k": k, "size": b.GetSizeInBytes(), "bm": i})
			} else {
				b, ok := m.c.Get(ck(k))
				id := 0
				if ok {
					var known bool
					if id, known = ids[b]; !known {
						id = -1
					}
				}
				tw.Emit(map[string]any{"ev": "Get", "k": k, "hit": ok, "bm": id})
			}
		}
		tw.Emit(map[string]any{"ev": "Metrics", "get": m.get.n, "put": m.put.n, "hit": m.hit.n, "miss": m.miss.n})
		ks := []int{}
		for k := 1; k <= nk; k++ {
			ks = append(ks, k)
		}
		sort.Ints(ks)
		for _, k := range ks {
			b, ok := m.c.Get(ck(k))
			id := 0
			if ok {
				id = ids[b]
				// the resident bitmap must really have the logged size (evaluation must not resize it)
			}
			tw.Emit(map[string]any{"ev": "Get", "k": k, "hit": ok, "bm": id})
		}
	}
	return tw.Close()
}
