// vdrive is the conformance harness binding the TLA+ specification of updog to the real code:
// replay-* sub-commands step the real code through behaviours TLC generated and compare the
// observable outcome; record-* sub-commands drive the real code and record one event per
// specification action for TLC to validate.
package main

import (
	"fmt"
	"os"
	"sort"
)

var commands = map[string]func(args []string) error{}

func main() {
	if len(os.Args) < 2 {
		var names []string
		for n := range commands {
			names = append(names, n)
		}
		sort.Strings(names)
		fmt.Fprintln(os.Stderr, "usage: vdrive <command> [flags]; commands:", names)
		os.Exit(2)
	}
	f, ok := commands[os.Args[1]]
	if !ok {
		fmt.Fprintln(os.Stderr, "unknown command", os.Args[1])
		os.Exit(2)
	}
	if err := f(os.Args[2:]); err != nil {
		fmt.Fprintln(os.Stderr, "vdrive:", err)
		os.Exit(2)
	}
}
