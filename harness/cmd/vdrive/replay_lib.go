package main

import (
	"encoding/json"
	"flag"
	"fmt"
	"math/rand"
	"os"
	"strings"

	"github.com/akrennmair/updog/zverif/internal/vx"
)

func init() { commands["replay-lib"] = replayLib }

type libDS struct {
	Tag    string              `json:"tag"`
	Qs     []vx.Query          `json:"qs"`
	Rows   []vx.Row            `json:"rows"`
	Res    []vx.Res            `json:"res"`
	Schema [][]json.RawMessage `json:"schema"`
}

type schemaCol struct {
	C  int
	Vs []int
}

func parseSchema(raw [][]json.RawMessage) []schemaCol {
	var out []schemaCol
	for _, p := range raw {
		var sc schemaCol
		json.Unmarshal(p[0], &sc.C)
		json.Unmarshal(p[1], &sc.Vs)
		out = append(out, sc)
	}
	return out
}

// replay-lib: for every TLC-enumerated dataset, build the index with every writer, open it in
// every mode and compare schema, returned row ids and the answer to every query of the
// projection with what the specification prescribes.
func replayLib(args []string) error {
	fs := flag.NewFlagSet("replay-lib", flag.ExitOnError)
	in := fs.String("in", "", "ndjson from Gen_Lib")
	seed := fs.Int64("seed", 1, "seed for the rank dictionary")
	cfgs := fs.String("configs", "mem:ondemand:none,mem:preload:none,memdb:ondemand:none,memdb:preload:none,big:ondemand:none,big:preload:none", "kind:mode:cache[:cap] list")
	reopen := fs.Bool("reopen", false, "close and reopen the index once and ask again (C05)")
	dictKind := fs.String("dict", "nasty", "nasty | ambiguous")
	fs.Parse(args)

	rng := rand.New(rand.NewSource(*seed))
	dict := vx.SmallDict(rng, 4, 4)
	if *dictKind == "ambiguous" {
		dict = vx.AmbiguousDict(4, 4)
	}
	dir := vx.Scratch("replaylib")
	defer os.RemoveAll(dir)

	rep := &vx.Report{Notes: map[string]any{"dict_cols": dict.Cols, "dict_vals": dict.Vals}}
	var qs []vx.Query
	n := 0
	err := vx.ReadLines(*in, func(line []byte) error {
		var ds libDS
		if err := json.Unmarshal(line, &ds); err != nil {
			return err
		}
		if ds.Tag == "queries" {
			qs = ds.Qs
			return nil
		}
		if ds.Tag != "ds" {
			return nil
		}
		if len(ds.Res) != len(qs) {
			return fmt.Errorf("dataset has %d results for %d queries", len(ds.Res), len(qs))
		}
		rep.Behaviours++
		for _, cfg := range strings.Split(*cfgs, ",") {
			n++
			replayLibOne(rep, dict, dir, n, cfg, qs, &ds, *reopen)
		}
		if len(rep.Samples) < 3 && len(ds.Rows) >= 2 {
			rep.Samples = append(rep.Samples, map[string]any{"rows": ds.Rows, "query": qs[len(qs)/2], "expected": ds.Res[len(qs)/2]})
		}
		return nil
	})
	if err != nil {
		return err
	}
	rep.Print()
	return nil
}

func replayLibOne(rep *vx.Report, dict *vx.Dict, dir string, n int, cfg string, qs []vx.Query, ds *libDS, reopen bool) {
	parts := strings.Split(cfg, ":")
	kind, mode, cache := parts[0], parts[1], parts[2]
	capacity := uint64(1 << 20)
	if len(parts) > 3 {
		fmt.Sscan(parts[3], &capacity)
	}
	path := vx.Join(dir, fmt.Sprintf("i%d.updog", n))
	defer os.Remove(path)
	mm := func(kindOf string, extra map[string]any) {
		m := map[string]any{"kind": kindOf, "cfg": cfg, "rows": ds.Rows}
		for k, v := range extra {
			m[k] = v
		}
		rep.Mismatch(m)
	}
	w, err := vx.NewWriter(kind, path)
	if err != nil {
		mm("newwriter", map[string]any{"err": err.Error()})
		return
	}
	for i, r := range ds.Rows {
		id, err := w.AddRow(dict.RowMap(r))
		rep.Steps++
		if err != nil || int(id) != i {
			mm("addrow", map[string]any{"i": i, "id": id, "err": fmt.Sprint(err)})
		}
	}
	if err := w.Flush(); err != nil {
		mm("flush", map[string]any{"err": err.Error()})
		return
	}
	rep.Steps++
	rounds := 1
	if reopen {
		rounds = 2
	}
	for round := 0; round < rounds; round++ {
		idx, err := vx.Open(path, mode, cache, capacity)
		if err != nil {
			mm("open", map[string]any{"err": err.Error(), "round": round})
			return
		}
		rep.Steps++
		// schema
		want := parseSchema(ds.Schema)
		got := idx.GetSchema()
		okS := len(got.Columns) == len(want)
		if okS {
			for i, c := range got.Columns {
				if dict.ColRank(c.Name) != want[i].C || len(c.Values) != len(want[i].Vs) {
					okS = false
					break
				}
				for j, v := range c.Values {
					if dict.ValRank(v.Value) != want[i].Vs[j] {
						okS = false
					}
				}
			}
		}
		if !okS {
			mm("schema", map[string]any{"got": fmt.Sprint(got), "want": ds.Schema, "round": round})
		}
		// the returned Schema is the caller's: overwrite it; GetSchema is asked again after the queries
		for i := range got.Columns {
			got.Columns[i].Name = "scribbled"
			for j := range got.Columns[i].Values {
				got.Columns[i].Values[j].Value = "by the caller"
			}
		}
		for qi, q := range qs {
			g := dict.ResOf(vx.Exec(idx, dict.ToQuery(q)))
			rep.Steps++
			if !g.Equal(ds.Res[qi]) {
				mm("exec", map[string]any{"q": q, "want": ds.Res[qi], "got": g, "round": round})
			}
		}
		again := idx.GetSchema()
		okA := len(again.Columns) == len(want)
		for i := 0; okA && i < len(again.Columns); i++ {
			c := again.Columns[i]
			if dict.ColRank(c.Name) != want[i].C || len(c.Values) != len(want[i].Vs) {
				okA = false
				break
			}
			for j, v := range c.Values {
				if dict.ValRank(v.Value) != want[i].Vs[j] {
					okA = false
				}
			}
		}
		if !okA {
			mm("schema-second-call", map[string]any{"got": fmt.Sprint(again), "want": ds.Schema, "round": round})
		}
		idx.Close()
	}
}
