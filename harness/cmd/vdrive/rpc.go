package main

import (
	"bytes"
	"context"
	"database/sql"
	"encoding/json"
	"flag"
	"fmt"
	"math/rand"
	"net"
	"os"
	"os/exec"
	"reflect"
	"strings"
	"sync"
	"time"

	"github.com/akrennmair/updog"
	"github.com/akrennmair/updog/internal/convert"
	proto "github.com/akrennmair/updog/proto/updog/v1"
	"github.com/akrennmair/updog/zverif/internal/vx"
	"google.golang.org/grpc"
	"google.golang.org/grpc/codes"
	"google.golang.org/grpc/credentials/insecure"
	"google.golang.org/grpc/status"
	pb "google.golang.org/protobuf/proto"
)

func init() {
	commands["replay-rpc"] = replayRPC
	commands["record-rpc"] = recordRPC
}

// HExpr is a rank expression that may contain holes.
type HExpr struct {
	Op  string   `json:"op"`
	Col int      `json:"col,omitempty"`
	Val int      `json:"val,omitempty"`
	Ph  int      `json:"ph,omitempty"`
	E   *HExpr   `json:"e,omitempty"`
	Es  []*HExpr `json:"es,omitempty"`
}

func (e *HExpr) MarshalJSON() ([]byte, error) {
	switch e.Op {
	case "eq":
		if e.Ph > 0 {
			return json.Marshal(map[string]any{"op": "eq", "col": e.Col, "val": e.Val, "ph": e.Ph})
		}
		return json.Marshal(map[string]any{"op": "eq", "col": e.Col, "val": e.Val})
	case "not":
		return json.Marshal(map[string]any{"op": "not", "e": e.E})
	case "and", "or":
		es := e.Es
		if es == nil {
			es = []*HExpr{}
		}
		return json.Marshal(map[string]any{"op": e.Op, "es": es})
	}
	return json.Marshal(map[string]any{"op": "hole"})
}

type rpcQuery struct {
	ID int    `json:"id"`
	E  *HExpr `json:"e"`
	GB []int  `json:"gb"`
}

type rpcOut struct {
	Kind string `json:"kind"`
	Res  vx.Res `json:"res"`
}

type rpcReply struct {
	Kind    string `json:"kind"`
	Results []struct {
		ID  int    `json:"id"`
		Out rpcOut `json:"out"`
	} `json:"results"`
}

type rpcLine struct {
	Tag     string     `json:"tag"`
	Rows    []vx.Row   `json:"rows"`
	Batch   []rpcQuery `json:"batch"`
	Replies []rpcReply `json:"replies"`
	Reply   rpcReply   `json:"-"` // the response variant (or the error when only that is allowed)
	MayErr  bool       `json:"-"`
}

// toPB concretises a rank expression; each hole becomes one of the ways a message can be incomplete.
// wire=true restricts to shapes that survive marshalling (no nil list elements).
func toPB(d *vx.Dict, e *HExpr, rng *rand.Rand, wire bool, inList bool) *proto.Query_Expression {
	switch e.Op {
	case "eq":
		return &proto.Query_Expression{Value: &proto.Query_Expression_Eq{Eq: &proto.Query_Expression_Equal{Column: d.Col(e.Col), Value: d.Val(e.Val), Placeholder: int32(e.Ph)}}}
	case "not":
		return &proto.Query_Expression{Value: &proto.Query_Expression_Not_{Not: &proto.Query_Expression_Not{Expr: toPB(d, e.E, rng, wire, false)}}}
	case "and":
		x := &proto.Query_Expression_And{}
		for _, s := range e.Es {
			x.Exprs = append(x.Exprs, toPB(d, s, rng, wire, true))
		}
		return &proto.Query_Expression{Value: &proto.Query_Expression_And_{And: x}}
	case "or":
		x := &proto.Query_Expression_Or{}
		for _, s := range e.Es {
			x.Exprs = append(x.Exprs, toPB(d, s, rng, wire, true))
		}
		return &proto.Query_Expression{Value: &proto.Query_Expression_Or_{Or: x}}
	}
	// hole
	kinds := 4
	if !wire {
		kinds = 6
	}
	switch k := rng.Intn(kinds); {
	case k == 0 && !inList:
		return nil // expression field not set at all
	case k == 1:
		return &proto.Query_Expression{Value: &proto.Query_Expression_Not_{Not: &proto.Query_Expression_Not{}}} // NOT without operand
	case k == 2:
		return &proto.Query_Expression{Value: &proto.Query_Expression_Not_{Not: &proto.Query_Expression_Not{Expr: &proto.Query_Expression{}}}}
	case k == 4:
		return &proto.Query_Expression{Value: &proto.Query_Expression_Not_{}} // oneof member with nil body (in-process only)
	case k == 5 && !inList:
		return &proto.Query_Expression{Value: &proto.Query_Expression_Eq{}} // comparison with nil body: column "" is unknown
	}
	return &proto.Query_Expression{} // oneof not set
}

// hToUpdog builds the library expression of a hole-free rank expression.
func hToUpdog(d *vx.Dict, e *HExpr) updog.Expression {
	switch e.Op {
	case "eq":
		return &updog.ExprEqual{Column: d.Col(e.Col), Value: d.Val(e.Val)}
	case "not":
		return &updog.ExprNot{Expr: hToUpdog(d, e.E)}
	case "and":
		x := &updog.ExprAnd{}
		for _, s := range e.Es {
			x.Exprs = append(x.Exprs, hToUpdog(d, s))
		}
		return x
	}
	x := &updog.ExprOr{}
	for _, s := range e.Es {
		x.Exprs = append(x.Exprs, hToUpdog(d, s))
	}
	return x
}

func toPBQuery(d *vx.Dict, q rpcQuery, rng *rand.Rand, wire bool) *proto.Query {
	pq := &proto.Query{Id: int32(q.ID), Expr: toPB(d, q.E, rng, wire, false)}
	for _, c := range q.GB {
		pq.GroupBy = append(pq.GroupBy, d.Col(c))
	}
	return pq
}

type server struct {
	cmd    *exec.Cmd
	addr   string
	conn   *grpc.ClientConn
	client proto.QueryServiceClient
	stderr *bytes.Buffer
	done   chan error
}

func freePort() string {
	l, err := net.Listen("tcp", "127.0.0.1:0")
	if err != nil {
		panic(err)
	}
	defer l.Close()
	return l.Addr().String()
}

// serverEnv: extra environment of the server processes started from here on (e.g. GOMAXPROCS=1: a server on one
// processor handles its requests one after the other on the same P, so whatever a request leaves behind in per-P
// state is what the next request finds)
var serverEnv []string

func startServer(bin, index string, cache, preload bool) (*server, error) {
	return startServerSized(bin, index, cache, preload, 0)
}

// startServerSized: maxCache > 0 sets --max-cache-size (bytes).
func startServerSized(bin, index string, cache, preload bool, maxCache uint64) (*server, error) {
	for attempt := 0; attempt < 5; attempt++ {
		s := &server{addr: freePort(), stderr: &bytes.Buffer{}, done: make(chan error, 1)}
		args := []string{"server", "-l", s.addr, "-d", freePort(), "-f", index, fmt.Sprintf("--enable-cache=%v", cache)}
		if maxCache > 0 {
			args = append(args, "-s", fmt.Sprint(maxCache))
		}
		if preload {
			args = append(args, "-p")
		}
		s.cmd = exec.Command(bin, args...)
		if len(serverEnv) > 0 {
			s.cmd.Env = append(os.Environ(), serverEnv...)
		}
		s.cmd.Stderr = s.stderr
		s.cmd.Stdout = s.stderr
		if err := s.cmd.Start(); err != nil {
			return nil, err
		}
		go func() { s.done <- s.cmd.Wait() }()
		conn, err := grpc.NewClient(s.addr, grpc.WithTransportCredentials(insecure.NewCredentials()))
		if err != nil {
			s.stop()
			continue
		}
		s.conn, s.client = conn, proto.NewQueryServiceClient(conn)
		deadline := time.Now().Add(8 * time.Second)
		for time.Now().Before(deadline) {
			ctx, cancel := context.WithTimeout(context.Background(), time.Second)
			_, err := s.client.Query(ctx, &proto.QueryRequest{})
			cancel()
			if err == nil {
				return s, nil
			}
			if !s.alive() {
				break
			}
			time.Sleep(50 * time.Millisecond)
		}
		s.stop()
	}
	return nil, fmt.Errorf("server could not be started")
}

func (s *server) alive() bool {
	select {
	case err := <-s.done:
		s.done <- err
		return false
	default:
		return true
	}
}

func (s *server) stop() {
	if s.conn != nil {
		s.conn.Close()
	}
	if s.cmd.Process != nil {
		s.cmd.Process.Kill()
	}
}

func (s *server) query(req *proto.QueryRequest) (*proto.QueryResponse, error) {
	ctx, cancel := context.WithTimeout(context.Background(), 10*time.Second)
	defer cancel()
	return s.client.Query(ctx, req)
}

// fromPBResult projects a protobuf result onto ranks.
func fromPBResult(d *vx.Dict, r *proto.Result) vx.Res {
	return d.FromResult(convert.ToResult(r), nil)
}

// replyOK compares a real reply with the one the specification prescribes.
func replyOK(d *vx.Dict, want rpcReply, resp *proto.QueryResponse, err error) string {
	if status.Code(err) == codes.DeadlineExceeded {
		return "the request was not answered within the deadline (an RPC error is an answer, silence is not)"
	}
	if want.Kind == "rpcerror" {
		if err == nil {
			return "expected an RPC error, got a response"
		}
		return ""
	}
	if err != nil {
		return "unexpected RPC error: " + err.Error()
	}
	if len(resp.Results) != len(want.Results) {
		return fmt.Sprintf("%d results for %d queries", len(resp.Results), len(want.Results))
	}
	for i, w := range want.Results {
		if int(resp.Results[i].QueryId) != w.ID {
			return fmt.Sprintf("result %d has id %d, want %d", i, resp.Results[i].QueryId, w.ID)
		}
		if w.Out.Kind == "res" && !fromPBResult(d, resp.Results[i]).Equal(w.Out.Res) {
			return fmt.Sprintf("result %d differs from the library's answer", i)
		}
	}
	return ""
}

// replay-rpc (C13, C14): every TLC-generated batch against a real `updog server` process for the
// four cache x preload combinations (wire path) and through convert.ToQuery + Execute in-process.
func replayRPC(args []string) error {
	fs := flag.NewFlagSet("replay-rpc", flag.ExitOnError)
	in := fs.String("in", "", "ndjson from MC_RPC")
	seed := fs.Int64("seed", 1, "seed")
	bin := fs.String("updog", "", "updog binary")
	stride := fs.Int("stride", 1, "every n-th batch per server configuration")
	binProbe := fs.Bool("binprobe", false, "also ask for group values that are not valid UTF-8 (C13)")
	fs.Parse(args)
	rng := rand.New(rand.NewSource(*seed))
	// adversarial dictionary: "a"+"b" = "ab"+"" (identifier column names, UTF-8 values)
	dict := vx.AmbiguousDict(4, 4)
	dir := vx.Scratch("replayrpc")
	defer os.RemoveAll(dir)
	rep := &vx.Report{Notes: map[string]any{}}
	var lines []rpcLine
	var rows []vx.Row
	if err := vx.ReadLines(*in, func(line []byte) error {
		var ln rpcLine
		if err := json.Unmarshal(line, &ln); err != nil {
			return err
		}
		if ln.Tag == "setup" {
			rows = ln.Rows
		} else if ln.Tag == "batch" {
			ln.Reply = ln.Replies[0]
			for _, r := range ln.Replies {
				if r.Kind == "response" {
					ln.Reply = r
				} else {
					ln.MayErr = true
				}
			}
			lines = append(lines, ln)
		}
		return nil
	}); err != nil {
		return err
	}
	path, err := buildIndex(dict, dir, "rpc.updog", "mem", rows)
	if err != nil {
		return err
	}
	probeQ := rpcQuery{ID: 0, E: &HExpr{Op: "eq", Col: 1, Val: 1}}
	var probeWant uint64
	for _, r := range rows {
		for _, p := range r {
			if p == [2]int{1, 1} {
				probeWant++
			}
		}
	}
	// in-process: conversion + Execute never panic; answers as prescribed
	idx, err := updog.OpenIndex(path)
	if err != nil {
		return err
	}
	// what the library itself answers for members whose outcome the specification leaves open
	// (operators without operands): the service must answer the same (C13: "equal what the library returns")
	libAny := map[string]vx.Res{}
	anyKey := func(q rpcQuery) string { b, _ := json.Marshal(q); return string(b) }
	for _, ln := range lines {
		rep.Behaviours++
		for qi, q := range ln.Batch {
			if ln.Reply.Kind == "response" && ln.Reply.Results[qi].Out.Kind == "any" {
				var res *updog.Result
				var qerr error
				// built directly with the library's own types (not through the conversion under test)
				lq := &updog.Query{Expr: hToUpdog(dict, q.E)}
				for _, c := range q.GB {
					lq.GroupBy = append(lq.GroupBy, dict.Col(c))
				}
				if p := vx.Safely(func() { res, qerr = idx.Execute(lq) }); p == nil && qerr == nil {
					libAny[anyKey(q)] = dict.FromResult(res, nil)
				}
			}
			rep.Steps++
			pq := toPBQuery(dict, q, rng, false)
			var res *updog.Result
			var qerr error
			p := vx.Safely(func() { res, qerr = idx.Execute(convert.ToQuery(pq)) })
			want := "ok"
			if ln.Reply.Kind == "rpcerror" {
				want = "?" // which member failed is not part of the reply; checked through the single-query batches
			}
			if p != nil {
				rep.Mismatch(map[string]any{"kind": "rpc-inprocess-panic", "query": q, "panic": p.Value + " @ " + p.Stack})
			} else if want == "ok" && !ln.MayErr && ln.Reply.Results[qi].Out.Kind == "res" {
				if qerr != nil || !dict.FromResult(res, nil).Equal(ln.Reply.Results[qi].Out.Res) {
					rep.Mismatch(map[string]any{"kind": "rpc-inprocess-answer", "query": q, "err": fmt.Sprint(qerr)})
				} else if back := convert.ToResult(convert.ToProtobufResult(res, 7)); !reflect.DeepEqual(back.Groups, res.Groups) && !(len(back.Groups) == 0 && len(res.Groups) == 0) || back.Count != res.Count {
					rep.Mismatch(map[string]any{"kind": "rpc-conversion-lossy", "query": q})
				}
			} else if len(ln.Batch) == 1 && ln.Reply.Kind == "rpcerror" && qerr == nil {
				rep.Mismatch(map[string]any{"kind": "rpc-inprocess-accepted-invalid", "query": q})
			}
		}
	}
	idx.Close()
	// rows of the file data source for a few query texts (while no server holds the file)
	var sqlTexts []string
	var sqlArgs [][]any
	var fileRows []sqlRows
	for _, q := range []vx.Query{{E: &vx.Expr{Op: "eq", Col: 1, Val: 1}}, {E: &vx.Expr{Op: "not", E: &vx.Expr{Op: "eq", Col: 2, Val: 2}}, GB: []int{1}},
		{E: &vx.Expr{Op: "eq", Col: 1, Val: 3}, GB: []int{2}}, {E: &vx.Expr{Op: "eq", Col: 3, Val: 1}}, {E: &vx.Expr{Op: "or", Es: []*vx.Expr{{Op: "eq", Col: 1, Val: 2}, {Op: "eq", Col: 2, Val: 1}}}, GB: []int{2, 1}}} {
		sqlTexts = append(sqlTexts, renderQuery(dict, q))
		sqlArgs = append(sqlArgs, nil)
	}
	// the same through placeholders (bound by the driver before the request is sent), also below NOT and in another order
	ph := func(c, n int) *vx.Expr { return &vx.Expr{Op: "ph", Col: c, Ph: n} }
	for _, pq := range []struct {
		q    vx.Query
		args []any
	}{
		{vx.Query{E: ph(1, 1)}, []any{dict.Val(1)}},
		{vx.Query{E: &vx.Expr{Op: "or", Es: []*vx.Expr{ph(1, 2), ph(2, 1)}}, GB: []int{2, 1}}, []any{dict.Val(1), dict.Val(2)}},
		{vx.Query{E: &vx.Expr{Op: "not", E: &vx.Expr{Op: "and", Es: []*vx.Expr{ph(2, 1), {Op: "not", E: ph(1, 2)}}}}, GB: []int{1}}, []any{dict.Val(2), dict.Val(1)}},
	} {
		sqlTexts = append(sqlTexts, renderQuery(dict, pq.q))
		sqlArgs = append(sqlArgs, pq.args)
	}
	viaStmt := func(db *sql.DB, text string, args []any) sqlRows {
		var out sqlRows
		if p := vx.Safely(func() {
			stmt, err := db.Prepare(text)
			if err != nil {
				out = sqlRows{Err: true, Rows: [][]string{}}
				return
			}
			defer stmt.Close()
			rows, err := stmt.Query(args...)
			out = collect(rows, err)
		}); p != nil {
			out = sqlRows{Panic: p.Value, Rows: [][]string{}}
		}
		return out
	}
	if fdb, err := sql.Open("updog", "file:"+path); err == nil {
		for qi, text := range sqlTexts {
			fileRows = append(fileRows, safeQuery(fdb, text, sqlArgs[qi]...))
		}
		fdb.Close()
	}
	// wire path
	cfgs := [][2]bool{{true, false}, {false, false}, {true, true}, {false, true}, {true, false}, {true, true}, {true, false}}
	cacheSizes := []uint64{0, 0, 0, 0, 16, 40, 72} // the last three: caches about as small as one entry
	for ci, cfg := range cfgs {
		srv, err := startServerSized(*bin, path, cfg[0], cfg[1], cacheSizes[ci])
		if err != nil {
			return err
		}
		dead := false
		unanswered := 0
		for li, ln := range lines {
			if (li+ci)%*stride != 0 && len(ln.Batch) > 1 {
				continue
			}
			rep.Steps++
			req := &proto.QueryRequest{}
			for _, q := range ln.Batch {
				req.Queries = append(req.Queries, toPBQuery(dict, q, rng, true))
			}
			if unanswered >= 3 {
				break // every further request of this kind would only wait out its deadline
			}
			resp, rerr := srv.query(req)
			msg := replyOK(dict, ln.Reply, resp, rerr)
			if status.Code(rerr) == codes.DeadlineExceeded {
				unanswered++
			}
			if msg != "" && ln.MayErr && rerr != nil && status.Code(rerr) != codes.DeadlineExceeded {
				msg = "" // rejecting the batch is allowed too
			}
			if msg == "" && rerr == nil && ln.Reply.Kind == "response" {
				for qi, q := range ln.Batch {
					if want, ok := libAny[anyKey(q)]; ok && ln.Reply.Results[qi].Out.Kind == "any" && qi < len(resp.Results) && !fromPBResult(dict, resp.Results[qi]).Equal(want) {
						msg = fmt.Sprintf("result %d differs from what the library returns for the same (operand-less) query", qi)
					}
				}
			}
			if msg != "" || !srv.alive() {
				if !srv.alive() {
					msg = "server process died: " + tail(srv.stderr.String(), 600)
				}
				rep.Mismatch(map[string]any{"kind": "rpc-reply", "cache": cfg[0], "cachesize": cacheSizes[ci], "preload": cfg[1], "batch": ln.Batch, "problem": msg})
			}
			// the server keeps answering well-formed requests
			if ln.Reply.Kind == "rpcerror" || li%25 == 0 || !srv.alive() {
				presp, perr := srv.query(&proto.QueryRequest{Queries: []*proto.Query{toPBQuery(dict, probeQ, rng, true)}})
				if perr != nil || len(presp.Results) != 1 || presp.Results[0].TotalCount != probeWant || presp.Results[0].QueryId != 1 || !srv.alive() {
					rep.Mismatch(map[string]any{"kind": "rpc-probe-after", "cache": cfg[0], "preload": cfg[1], "batch": ln.Batch, "err": fmt.Sprint(perr), "alive": srv.alive(), "stderr": tail(srv.stderr.String(), 600)})
					dead = !srv.alive()
				}
			}
			if dead {
				break
			}
		}
		// a batch may be long: 100 / 300 copies of the probe query come back as 100 / 300 results in order, ids 1..n
		if !dead {
			for _, width := range []int{100, 300} {
				req := &proto.QueryRequest{}
				for k := 0; k < width; k++ {
					req.Queries = append(req.Queries, toPBQuery(dict, probeQ, rng, true))
				}
				rep.Steps++
				resp, err := srv.query(req)
				bad := ""
				if err != nil {
					bad = "error: " + err.Error()
				} else if len(resp.Results) != width {
					bad = fmt.Sprintf("%d results", len(resp.Results))
				} else {
					for k, r := range resp.Results {
						if r.TotalCount != probeWant || int(r.QueryId) != k+1 {
							bad = fmt.Sprintf("result %d: id %d count %d", k+1, r.QueryId, r.TotalCount)
							break
						}
					}
				}
				if bad != "" {
					rep.Mismatch(map[string]any{"kind": "rpc-long-batch", "cache": cfg[0], "preload": cfg[1], "queries": width, "problem": bad})
					break
				}
			}
		}
		// C13: the grpc:// data source of the sql driver returns the same rows as the file data source
		if !dead {
			db, err := sql.Open("updog", "grpc://"+srv.addr)
			if err == nil {
				for qi, text := range sqlTexts {
					rep.Steps++
					got := safeQuery(db, text, sqlArgs[qi]...)
					if !sameRows(got, fileRows[qi]) {
						rep.Mismatch(map[string]any{"kind": "rpc-grpc-driver-rows", "query": text, "args": sqlArgs[qi], "got": got, "want": fileRows[qi]})
					}
					if got = viaStmt(db, text, sqlArgs[qi]); !sameRows(got, fileRows[qi]) {
						rep.Mismatch(map[string]any{"kind": "rpc-grpc-driver-rows", "query": text, "args": sqlArgs[qi], "prepared": true, "got": got, "want": fileRows[qi]})
					}
				}
				db.Close()
			}
		}
		srv.stop()
		<-srv.done
	}
	// values that differ only in the white space inside them, asked one after the other over one grpc:// handle
	// (and over the file data source): every text means its own value
	{
		wd := wsDict()
		var wrows []vx.Row
		for v := 1; v <= len(wd.Vals); v++ {
			for k := 0; k < v; k++ { // value v occurs v times: every count is different
				wrows = append(wrows, vx.Row{{2, v}, {3, 1 + k%2}})
			}
		}
		wpath, err := buildIndex(wd, dir, "ws.updog", "mem", wrows)
		if err != nil {
			return err
		}
		var wtexts []string
		for v := 1; v <= len(wd.Vals); v++ {
			wtexts = append(wtexts, renderQuery(wd, vx.Query{E: &vx.Expr{Op: "eq", Col: 2, Val: v}}),
				renderQuery(wd, vx.Query{E: &vx.Expr{Op: "not", E: &vx.Expr{Op: "eq", Col: 2, Val: v}}, GB: []int{3}}))
		}
		var wfile []sqlRows
		if fdb, err := sql.Open("updog", "file:"+wpath); err == nil {
			for _, text := range wtexts {
				wfile = append(wfile, safeQuery(fdb, text))
			}
			fdb.Close()
		}
		if srv, err := startServer(*bin, wpath, true, false); err == nil {
			if db, err := sql.Open("updog", "grpc://"+srv.addr); err == nil && len(wfile) == len(wtexts) {
				db.SetMaxOpenConns(1)
				for round := 0; round < 2; round++ {
					for qi, text := range wtexts {
						rep.Steps++
						got := safeQuery(db, text)
						if !sameRows(got, wfile[qi]) {
							rep.Mismatch(map[string]any{"kind": "rpc-grpc-driver-rows", "query": text, "got": got, "want": wfile[qi], "note": "white-space-only variants asked in sequence"})
						} else if qi%2 == 0 && (len(got.Rows) != 1 || len(got.Rows[0]) != 1 || got.Rows[0][0] != fmt.Sprint(qi/2+1)) {
							// value number v was added v times: the count is known without any other data source
							rep.Mismatch(map[string]any{"kind": "rpc-grpc-driver-rows", "query": text, "got": got, "want_count": qi/2 + 1})
						}
					}
				}
				db.Close()
			}
			srv.stop()
			<-srv.done
		} else {
			return err
		}
	}
	// index values that are not valid UTF-8: the library answers, the service must answer alike
	if *binProbe {
		bd := vx.NewDict([]string{"a", "b"}, []string{"x", "\xff"})
		bpath, err := buildIndex(bd, dir, "bin.updog", "mem", []vx.Row{{{1, 1}, {2, 2}}, {{1, 1}, {2, 1}}})
		if err != nil {
			return err
		}
		srv, err := startServer(*bin, bpath, true, false)
		if err != nil {
			return err
		}
		rep.Steps++
		q := rpcQuery{E: &HExpr{Op: "eq", Col: 1, Val: 1}, GB: []int{2}}
		resp, rerr := srv.query(&proto.QueryRequest{Queries: []*proto.Query{toPBQuery(bd, q, rng, true)}})
		if rerr != nil || len(resp.Results) != 1 || len(resp.Results[0].Groups) != 2 {
			rep.Mismatch(map[string]any{"kind": "rpc-non-utf8-value", "input": "index value \\xff, query a = \"x\" ; b", "err": fmt.Sprint(rerr)})
		}
		srv.stop()
		<-srv.done
	}
	if len(lines) > 3 {
		rep.Samples = append(rep.Samples, lines[len(lines)/2], lines[len(lines)-1])
	}
	rep.Print()
	return nil
}

func tail(s string, n int) string {
	if len(s) > n {
		return s[len(s)-n:]
	}
	return s
}

// ---------------------------------------------------------------- random requests -> Trace_RPC

func randHExpr(rng *rand.Rand, depth int) *HExpr {
	if depth <= 0 || rng.Intn(4) == 0 {
		switch rng.Intn(8) {
		case 0:
			return &HExpr{Op: "hole"}
		case 1:
			return &HExpr{Op: "eq", Col: 3, Val: 1} // unknown column
		}
		if rng.Intn(6) == 0 {
			return &HExpr{Op: "eq", Col: 1 + rng.Intn(2), Val: 1 + rng.Intn(3), Ph: 1 + rng.Intn(3)} // unresolved placeholder
		}
		return &HExpr{Op: "eq", Col: 1 + rng.Intn(2), Val: 1 + rng.Intn(3)}
	}
	switch rng.Intn(4) {
	case 0:
		return &HExpr{Op: "not", E: randHExpr(rng, depth-1)}
	default:
		e := &HExpr{Op: []string{"and", "or"}[rng.Intn(2)]}
		k := rng.Intn(4)
		if rng.Intn(12) == 0 {
			k = []int{8, 15, 16, 17, 31, 32, 33, 40}[rng.Intn(8)] // operand counts around powers of two
			depth = 1
		}
		for ; k > 0; k-- {
			e.Es = append(e.Es, randHExpr(rng, depth-1))
		}
		return e
	}
}

// fromWire rebuilds the rank expression (holes explicit) from a decoded message.
func fromWire(d *vx.Dict, e *proto.Query_Expression) *HExpr {
	if e == nil {
		return &HExpr{Op: "hole"}
	}
	switch v := e.Value.(type) {
	case *proto.Query_Expression_Eq:
		c, val := d.ColRank(v.Eq.GetColumn()), d.ValRank(v.Eq.GetValue())
		if c < 0 {
			c = 99
		}
		if val < 0 {
			val = 98
		}
		ph := int(v.Eq.GetPlaceholder())
		if ph < 0 {
			ph = 0
		}
		return &HExpr{Op: "eq", Col: c, Val: val, Ph: ph}
	case *proto.Query_Expression_Not_:
		return &HExpr{Op: "not", E: fromWire(d, v.Not.GetExpr())}
	case *proto.Query_Expression_And_:
		x := &HExpr{Op: "and"}
		for _, s := range v.And.GetExprs() {
			x.Es = append(x.Es, fromWire(d, s))
		}
		return x
	case *proto.Query_Expression_Or_:
		x := &HExpr{Op: "or"}
		for _, s := range v.Or.GetExprs() {
			x.Es = append(x.Es, fromWire(d, s))
		}
		return x
	}
	return &HExpr{Op: "hole"}
}

// record-rpc (C14/C13): random requests (structural omissions, mutated wire bytes that still
// decode, deep nesting) against one server; the decoded structure and the reply are logged.
func recordRPC(args []string) error {
	fs := flag.NewFlagSet("record-rpc", flag.ExitOnError)
	out := fs.String("out", "", "trace file")
	seed := fs.Int64("seed", 1, "seed")
	bin := fs.String("updog", "", "updog binary")
	n := fs.Int("n", 300, "requests")
	fs.Parse(args)
	w, err := vx.NewNDWriter(*out)
	if err != nil {
		return err
	}
	rng := rand.New(rand.NewSource(*seed))
	dict := identDictU(rng, 3, true)
	dir := vx.Scratch("recrpc")
	defer os.RemoveAll(dir)
	rows := []vx.Row{{{1, 1}, {2, 1}}, {{1, 1}, {2, 2}}, {{1, 2}}, {{2, 2}}, {}, {{1, 3}, {2, 1}}}
	path, err := buildIndex(dict, dir, "rpc.updog", "big", rows)
	if err != nil {
		return err
	}
	serverEnv = []string{"GOMAXPROCS=1"}
	srv, err := startServer(*bin, path, rng.Intn(2) == 0, rng.Intn(2) == 0)
	serverEnv = nil
	if err != nil {
		return err
	}
	defer srv.stop()
	w.Emit(map[string]any{"ev": "Setup", "rows": rowsToJSON(rows)})
	sweep, gsweep, timeouts, afterFail, fresh := 0, 0, 0, 0, 0
	for i := 0; i < *n; i++ {
		req := &proto.QueryRequest{}
		for k := rng.Intn(4); k > 0; k-- {
			q := rpcQuery{ID: []int{0, 0, 7, 7, 3}[rng.Intn(5)], E: randHExpr(rng, rng.Intn(4))}
			for g := rng.Intn(3); g > 0; g-- {
				q.GB = append(q.GB, 1+rng.Intn(3))
			}
			req.Queries = append(req.Queries, toPBQuery(dict, q, rng, true))
		}
		sweepBefore, gsweepBefore := sweep, gsweep
		deepSlot := i%10 == 9 // deep nesting takes this request: the sweeps keep their next value for a later slot
		follow := afterFail > 0
		if follow {
			// right after a request that failed half-way through its operands: well-formed AND / OR nodes that were not
			// asked before (so no cache answers them); nothing of the failed request may show in their answers
			afterFail--
			fresh++
			l1 := &HExpr{Op: "eq", Col: 1, Val: 1 + fresh%3}
			l2 := &HExpr{Op: "not", E: &HExpr{Op: "eq", Col: 2, Val: 1 + (fresh/3)%2}}
			l3 := &HExpr{Op: "eq", Col: 2, Val: 1 + (fresh/6)%2}
			e := &HExpr{Op: []string{"and", "or"}[fresh%2], Es: []*HExpr{l1, l2, l3}[:2+fresh%2]}
			if fresh%5 == 0 {
				e = &HExpr{Op: "not", E: e}
			}
			req.Queries = []*proto.Query{toPBQuery(dict, rpcQuery{E: e}, rng, true)}
			deepSlot = false
		}
		if i%3 == 1 && sweep <= 3*41 && !deepSlot && !follow {
			// systematic operand counts 0..40 for OR, AND and NOT(OR)
			k := sweep / 3
			e := &HExpr{Op: []string{"or", "and", "or"}[sweep%3]}
			for j := 0; j < k; j++ {
				e.Es = append(e.Es, &HExpr{Op: "eq", Col: 1 + j%2, Val: 1 + j%3})
			}
			if sweep%3 == 2 {
				e = &HExpr{Op: "not", E: e}
			}
			sweep++
			req.Queries = []*proto.Query{toPBQuery(dict, rpcQuery{E: e}, rng, true)}
		}
		if i%3 == 2 && gsweep <= 100 && !deepSlot && !follow {
			// systematic group-by widths: the 2-valued column repeated 0..70 times, then the 3-valued one 30..59 times
			col, width := 2, gsweep
			if gsweep > 70 {
				col, width = 1, gsweep-41
			}
			gsweep++
			q := rpcQuery{E: &HExpr{Op: "not", E: &HExpr{Op: "eq", Col: 1, Val: 2}}}
			for j := 0; j < width; j++ {
				q.GB = append(q.GB, col)
			}
			req.Queries = []*proto.Query{toPBQuery(dict, q, rng, true)}
		}
		if j := i / 3; i%3 == 0 && j < 2*len(strangeColumns) && !deepSlot && !follow {
			// comparisons against / grouping by columns the index does not have, under names of every shape (the slots the
			// operand-count and group-by-width sweeps leave free)
			name := strangeColumns[j/2]
			eq := &proto.Query_Expression{Value: &proto.Query_Expression_Eq{Eq: &proto.Query_Expression_Equal{Column: name, Value: "x"}}}
			if j%2 == 0 {
				if j%4 == 0 {
					afterFail = 2
					// as a later operand of an OR / AND whose earlier operands are fine (the request fails half-way through)
					good := toPB(dict, &HExpr{Op: "eq", Col: 1, Val: 1 + j%3}, rng, true, false)
					if j%8 == 0 {
						eq = &proto.Query_Expression{Value: &proto.Query_Expression_Or_{Or: &proto.Query_Expression_Or{Exprs: []*proto.Query_Expression{good, eq}}}}
					} else {
						eq = &proto.Query_Expression{Value: &proto.Query_Expression_And_{And: &proto.Query_Expression_And{Exprs: []*proto.Query_Expression{good, good, eq}}}}
					}
				}
				req.Queries = []*proto.Query{{Expr: eq}}
			} else {
				req.Queries = []*proto.Query{{Expr: toPB(dict, &HExpr{Op: "eq", Col: 1, Val: 1}, rng, true, false), GroupBy: []string{name}}}
			}
		}
		if deepSlot { // deep nesting
			e := &proto.Query_Expression{Value: &proto.Query_Expression_Eq{Eq: &proto.Query_Expression_Equal{Column: dict.Col(1), Value: dict.Val(1)}}}
			for d := 0; d < []int{50, 500, 5000}[rng.Intn(3)]; d++ {
				e = &proto.Query_Expression{Value: &proto.Query_Expression_Not_{Not: &proto.Query_Expression_Not{Expr: e}}}
			}
			req.Queries = []*proto.Query{{Expr: e}}
		}
		// mutate the wire bytes; keep the mutation when the result still decodes
		systematic := follow || deepSlot || (i%3 == 1 && sweepBefore != sweep) || (i%3 == 2 && gsweepBefore != gsweep) || (i%3 == 0 && i/3 < 2*len(strangeColumns))
		if b, err := pb.Marshal(req); err == nil && len(b) > 0 && rng.Intn(2) == 0 && !systematic { // the sweeps go out as they are
			mb := append([]byte{}, b...)
			for k := 1 + rng.Intn(3); k > 0; k-- {
				switch rng.Intn(3) {
				case 0:
					mb[rng.Intn(len(mb))] = byte(rng.Intn(256))
				case 1:
					j := rng.Intn(len(mb))
					mb = append(mb[:j], mb[j+1:]...)
				case 2:
					j := rng.Intn(len(mb))
					mb = append(mb[:j], append([]byte{byte(rng.Intn(256))}, mb[j:]...)...)
				}
				if len(mb) == 0 {
					break
				}
			}
			var mreq proto.QueryRequest
			if pb.Unmarshal(mb, &mreq) == nil {
				req = &mreq
			}
		}
		// log the decoded structure
		batch := []any{}
		deep := false
		for _, q := range req.Queries {
			gb := []int{}
			for _, c := range q.GroupBy {
				r := dict.ColRank(c)
				if r < 0 {
					r = 99
				}
				gb = append(gb, r)
			}
			h := fromWire(dict, q.Expr)
			if depthOf(h) > 150 {
				deep = true
			}
			batch = append(batch, map[string]any{"id": int(q.Id), "e": h, "gb": gb})
		}
		resp, rerr := srv.query(req)
		reply := map[string]any{"kind": "response", "results": []any{}}
		if rerr != nil {
			reply["kind"] = "rpcerror"
			if status.Code(rerr) == codes.DeadlineExceeded {
				reply["kind"] = "timeout" // never answered: matches no reply the specification allows
				timeouts++
			}
		} else {
			rs := []any{}
			for _, r := range resp.Results {
				rs = append(rs, map[string]any{"id": int(r.QueryId), "res": fromPBResult(dict, r)})
			}
			reply["results"] = rs
		}
		if deep {
			// beyond TLC's recursion depth: only liveness of the server is checked
			w.Emit(map[string]any{"ev": "DeepRequest", "alive": srv.alive()})
		} else {
			w.Emit(map[string]any{"ev": "Request", "batch": batch, "reply": reply})
		}
		presp, perr := srv.query(&proto.QueryRequest{Queries: []*proto.Query{{Expr: toPB(dict, &HExpr{Op: "eq", Col: 1, Val: 1}, rng, true, false)}}})
		ok := perr == nil && len(presp.Results) == 1 && presp.Results[0].TotalCount == 2
		w.Emit(map[string]any{"ev": "Alive", "up": srv.alive() && ok})
		if !srv.alive() || timeouts >= 3 {
			break
		}
	}
	return w.Close()
}

// strangeColumns: names no index of these runs has: near misses of the real ones, multi-byte characters at every position,
// combining marks, empty, very long
var strangeColumns = []string{"", "zed", "ZED", "Zedd", "Ze", "aa", "b2", "c-x", "c_y", "gr\u00f6\u00dfe", "l\u00e4nder", "\u00f6s", "na\u00efve", "Ze\u010f",
	"a\u0301", "b1\u00e9", "\u00e9b1", "\u65e5\u672c\u8a9e", "c_x\u0142z", "\u00e9", "a\u00e9", "\u00e9a", "\U0001f436", "Z\U0001f436d", " a", "a ", "a\x00", strings.Repeat("Zed", 400)}

func depthOf(e *HExpr) int {
	d := 0
	for e != nil && e.Op == "not" {
		d++
		e = e.E
	}
	if e == nil {
		return d
	}
	m := 0
	for _, s := range e.Es {
		if x := depthOf(s); x > m {
			m = x
		}
	}
	return d + 1 + m
}

func init() { commands["record-rpc-conc"] = recordRPCConc }

// record-rpc-conc (C04 d): 16 concurrent RPC clients against a (race-built) `updog server` with its
// default cache; every result is logged as a Trace_Lib Exec event (the service answers like the
// library), the server's stderr is scanned for race reports and its liveness checked.
func recordRPCConc(args []string) error {
	fs := flag.NewFlagSet("record-rpc-conc", flag.ExitOnError)
	out := fs.String("out", "", "trace file")
	seed := fs.Int64("seed", 1, "seed")
	bin := fs.String("updog", "", "updog binary (race build)")
	per := fs.Int("per", 30, "requests per client")
	fs.Parse(args)
	w, err := vx.NewNDWriter(*out)
	if err != nil {
		return err
	}
	dir := vx.Scratch("recrpcconc")
	defer os.RemoveAll(dir)
	r := &libRec{out: w, rng: rand.New(rand.NewSource(*seed)), dir: dir, hashes: map[string]int{}, paths: map[int]string{}}
	rng := r.rng
	d := identDictU(rng, 6, true)
	os.Setenv("GORACE", "halt_on_error=1 exitcode=66")
	for cfgI, preload := range []bool{false, true} {
		r.reset(d)
		gens := []colGen{
			{col: 1, present: 1, gen: func(int) int { return 1 + rng.Intn(4) }},
			{col: 2, present: 0.8, gen: func(int) int { return 1 + rng.Intn(5) }},
			{col: 3, present: 0.5, gen: func(int) int { return 1 + rng.Intn(2) }},
		}
		rows := genDataset(rng, 200+rng.Intn(2000), gens, 0)
		wr, ok := r.newWriter(1, kinds[cfgI%3])
		if !ok {
			continue
		}
		r.addRows(1, wr, rows)
		if !r.flush(1, wr) {
			continue
		}
		srv, err := startServer(*bin, r.path(1), true, preload)
		if err != nil {
			return err
		}
		mode := "ondemand"
		if preload {
			mode = "preload"
		}
		w.Emit(map[string]any{"ev": "Open", "p": 1, "mode": mode, "cache": "server-default", "ok": true, "fh": -1})
		var leaves [][2]int
		for c := 1; c <= 3; c++ {
			for v := 1; v <= 6; v++ {
				leaves = append(leaves, [2]int{c, v})
			}
		}
		eg := &exprGen{rng: rng, leaves: leaves}
		var pool []vx.Query
		for k := 0; k < 25; k++ {
			var gb []int
			if rng.Intn(3) == 0 {
				gb = []int{1 + rng.Intn(3)}
			}
			pool = append(pool, vx.Query{E: eg.tree(1+rng.Intn(4), 1+rng.Intn(4)), GB: gb})
		}
		var mu sync.Mutex
		var wg sync.WaitGroup
		seeds := make([]int64, 16)
		for g := range seeds {
			seeds[g] = rng.Int63()
		}
		var toPBx func(e *vx.Expr) *proto.Query_Expression
		toPBx = func(e *vx.Expr) *proto.Query_Expression {
			switch e.Op {
			case "eq":
				return &proto.Query_Expression{Value: &proto.Query_Expression_Eq{Eq: &proto.Query_Expression_Equal{Column: d.Col(e.Col), Value: d.Val(e.Val)}}}
			case "not":
				return &proto.Query_Expression{Value: &proto.Query_Expression_Not_{Not: &proto.Query_Expression_Not{Expr: toPBx(e.E)}}}
			case "and":
				x := &proto.Query_Expression_And{}
				for _, s := range e.Es {
					x.Exprs = append(x.Exprs, toPBx(s))
				}
				return &proto.Query_Expression{Value: &proto.Query_Expression_And_{And: x}}
			}
			x := &proto.Query_Expression_Or{}
			for _, s := range e.Es {
				x.Exprs = append(x.Exprs, toPBx(s))
			}
			return &proto.Query_Expression{Value: &proto.Query_Expression_Or_{Or: x}}
		}
		for g := 0; g < 16; g++ {
			wg.Add(1)
			go func(g int) {
				defer wg.Done()
				lr := rand.New(rand.NewSource(seeds[g]))
				for k := 0; k < *per; k++ {
					var qs []vx.Query
					req := &proto.QueryRequest{}
					for n := 1 + lr.Intn(3); n > 0; n-- {
						q := pool[lr.Intn(len(pool))]
						qs = append(qs, q)
						pq := &proto.Query{Expr: toPBx(q.E)}
						for _, c := range q.GB {
							pq.GroupBy = append(pq.GroupBy, d.Col(c))
						}
						req.Queries = append(req.Queries, pq)
					}
					resp, rerr := srv.query(req)
					mu.Lock()
					for i, q := range qs {
						res := vx.Res{Ok: false, Groups: []vx.Group{}}
						if rerr == nil && i < len(resp.Results) {
							res = fromPBResult(d, resp.Results[i])
						}
						gb := q.GB
						if gb == nil {
							gb = []int{}
						}
						w.Emit(map[string]any{"ev": "Exec", "p": 1, "e": q.E, "gb": gb, "res": res, "fh": -1, "client": g})
					}
					mu.Unlock()
				}
			}(g)
		}
		wg.Wait()
		alive := srv.alive()
		srv.stop()
		<-srv.done
		if log := srv.stderr.String(); strings.Contains(log, "DATA RACE") {
			w.Emit(map[string]any{"ev": "Race", "report": tail(log[strings.Index(log, "WARNING: DATA RACE"):], 3000)})
		} else if !alive {
			w.Emit(map[string]any{"ev": "Died", "stderr": tail(log, 2000)})
		}
		w.Emit(map[string]any{"ev": "Close", "p": 1, "fh": -1})
	}
	return w.Close()
}
