package main

import (
	"encoding/json"
	"flag"
	"fmt"
	"math/rand"
	"os"

	"github.com/RoaringBitmap/roaring"
	"github.com/akrennmair/updog"
	"github.com/akrennmair/updog/zverif/internal/vx"
)

func init() {
	commands["replay-pairs"] = replayPairs
	commands["replay-cacheseq"] = replayCacheSeq
	commands["record-cache"] = recordCache
}

// recCache wraps a real cache (public updog.Cache interface, no hook needed) and reports calls.
type recCache struct {
	inner updog.Cache
	onGet func(key uint64, bm *roaring.Bitmap, hit bool)
	onPut func(key uint64, bm *roaring.Bitmap)
}

func (c *recCache) Get(key uint64) (*roaring.Bitmap, bool) {
	bm, ok := c.inner.Get(key)
	if c.onGet != nil {
		c.onGet(key, bm, ok)
	}
	return bm, ok
}

func (c *recCache) Put(key uint64, bm *roaring.Bitmap) {
	if c.onPut != nil {
		c.onPut(key, bm)
	}
	c.inner.Put(key, bm)
}

type nopCache struct{}

func (nopCache) Get(uint64) (*roaring.Bitmap, bool) { return nil, false }
func (nopCache) Put(uint64, *roaring.Bitmap)        {}

func openWith(path, mode string, cache updog.Cache) (*updog.Index, error) {
	var opts []updog.IndexOption
	if cache != nil {
		opts = append(opts, updog.WithCache(cache))
	}
	if mode == "preload" {
		opts = append(opts, updog.WithPreloadedData())
	}
	return updog.OpenIndex(path, opts...)
}

func buildIndex(dict *vx.Dict, dir, name, kind string, rows []vx.Row) (string, error) {
	path := vx.Join(dir, name)
	w, err := vx.NewWriter(kind, path)
	if err != nil {
		return "", err
	}
	for _, r := range rows {
		if _, err := w.AddRow(dict.RowMap(r)); err != nil {
			return "", err
		}
	}
	return path, w.Flush()
}

var cacheCaps = []uint64{0, 120, 400, 1 << 20}

// capSweep: byte capacities from "not even one entry" over "exactly one / two / three entries" to "most of them"
var capSweep = []uint64{16, 24, 32, 40, 48, 56, 64, 72, 80, 96, 112, 128, 160, 200, 260, 330, 400, 520}

type pairLine struct {
	Tag    string   `json:"tag"`
	Rows   []vx.Row `json:"rows"`
	Scheme string   `json:"scheme"`
	E1     *vx.Expr `json:"e1"`
	E2     *vx.Expr `json:"e2"`
	R1     vx.Res   `json:"r1"`
	R2     vx.Res   `json:"r2"`
	GBs    [][]int  `json:"gbs"`
	Steps  []struct {
		E   *vx.Expr `json:"e"`
		Res vx.Res   `json:"res"`
		By  []vx.Res `json:"by"` // the answer with each group-by list of the setup line
	} `json:"steps"`
}

// replay-pairs (C03): each TLC-generated pair of expressions that some weak key scheme confuses
// is executed in both orders on a real index with a fresh LRU cache; answers must be the spec's.
func replayPairs(args []string) error {
	fs := flag.NewFlagSet("replay-pairs", flag.ExitOnError)
	in := fs.String("in", "", "ndjson from MC_Keys")
	seed := fs.Int64("seed", 1, "seed")
	stride := fs.Int("stride", 1, "use every n-th pair")
	fs.Parse(args)
	rng := rand.New(rand.NewSource(*seed))
	dict := vx.SmallDict(rng, 4, 20)
	dir := vx.Scratch("replaypairs")
	defer os.RemoveAll(dir)
	rep := &vx.Report{}
	var path string
	gb := []int{4}
	n := 0
	err := vx.ReadLines(*in, func(line []byte) error {
		var ln pairLine
		if err := json.Unmarshal(line, &ln); err != nil {
			return err
		}
		if ln.Tag == "setup" {
			var err error
			path, err = buildIndex(dict, dir, "pairs.updog", []string{"mem", "big"}[int(*seed)%2], ln.Rows)
			return err
		}
		if ln.Tag != "pair" {
			return nil
		}
		n++
		if n%*stride != 0 {
			return nil
		}
		rep.Behaviours++
		for order := 0; order < 2; order++ {
			mode := []string{"ondemand", "preload"}[(n+order)%2]
			idx, err := openWith(path, mode, updog.NewLRUCache(cacheCaps[1+(n+order)%3]))
			if err != nil {
				return err
			}
			es := []*vx.Expr{ln.E1, ln.E2}
			want := []vx.Res{ln.R1, ln.R2}
			if order == 1 {
				es[0], es[1] = es[1], es[0]
				want[0], want[1] = want[1], want[0]
			}
			for k := 0; k < 2; k++ {
				rep.Steps++
				got := dict.ResOf(vx.Exec(idx, dict.ToQuery(vx.Query{E: es[k], GB: gb})))
				if !got.Equal(want[k]) {
					rep.Mismatch(map[string]any{"kind": "cache-pair", "scheme": ln.Scheme, "order": order, "first": es[0], "second": es[1], "at": k + 1, "want": want[k], "got": got, "mode": mode})
					break
				}
			}
			idx.Close()
		}
		if len(rep.Samples) < 3 && rep.Behaviours%211 == 1 {
			rep.Samples = append(rep.Samples, map[string]any{"scheme": ln.Scheme, "e1": ln.E1, "e2": ln.E2})
		}
		return nil
	})
	if err != nil {
		return err
	}
	rep.Print()
	return nil
}

// replay-cacheseq (C03): every TLC-enumerated query sequence on one handle, for every capacity and mode.
func replayCacheSeq(args []string) error {
	fs := flag.NewFlagSet("replay-cacheseq", flag.ExitOnError)
	in := fs.String("in", "", "ndjson from Gen_Cache")
	seed := fs.Int64("seed", 1, "seed")
	fs.Parse(args)
	rng := rand.New(rand.NewSource(*seed))
	dict := vx.SmallDict(rng, 4, 4)
	dir := vx.Scratch("replaycseq")
	defer os.RemoveAll(dir)
	rep := &vx.Report{}
	var path string
	gbs := [][]int{{}}
	err := vx.ReadLines(*in, func(line []byte) error {
		var ln pairLine
		if err := json.Unmarshal(line, &ln); err != nil {
			return err
		}
		if ln.Tag == "setup" {
			var err error
			if len(ln.GBs) > 0 {
				gbs = ln.GBs
			}
			path, err = buildIndex(dict, dir, "seq.updog", "mem", ln.Rows)
			return err
		}
		if ln.Tag != "seq" {
			return nil
		}
		rep.Behaviours++
		// capacity 0, two capacities from the sweep (rotating: every capacity meets every kind of sequence), ample
		caps := []uint64{0, capSweep[rep.Behaviours%len(capSweep)], capSweep[(rep.Behaviours/len(capSweep)+rep.Behaviours*7+5)%len(capSweep)], 1 << 20}
		for ci, capacity := range caps {
			mode := []string{"ondemand", "preload"}[(rep.Behaviours+ci)%2]
			idx, err := openWith(path, mode, updog.NewLRUCache(capacity))
			if err != nil {
				return err
			}
			for k, st := range ln.Steps {
				rep.Steps++
				// group-by list of this step: rotates with sequence number, position and capacity so that every
				// (query, list) combination occurs before and after every other one
				gi, want := 0, st.Res
				if len(st.By) == len(gbs) && ci > 0 {
					gi = (rep.Behaviours/(1+k) + k*ci + ci) % len(gbs)
					want = st.By[gi]
				}
				got := dict.ResOf(vx.Exec(idx, dict.ToQuery(vx.Query{E: st.E, GB: gbs[gi]})))
				if !got.Equal(want) {
					rep.Mismatch(map[string]any{"kind": "cache-seq", "capacity": capacity, "mode": mode, "steps": ln.Steps[:k+1], "gb": gbs[gi], "got": got, "want": want})
					break
				}
			}
			idx.Close()
		}
		if len(rep.Samples) < 2 && rep.Behaviours%501 == 7 {
			rep.Samples = append(rep.Samples, ln.Steps)
		}
		return nil
	})
	if err != nil {
		return err
	}
	rep.Print()
	return nil
}

// ---------------------------------------------------------------- record-cache

func subExprs(e *vx.Expr, seen map[string]*vx.Expr) {
	b, _ := json.Marshal(e)
	seen[string(b)] = e
	switch e.Op {
	case "not":
		subExprs(e.E, seen)
	case "and", "or":
		for _, s := range e.Es {
			subExprs(s, seen)
		}
	}
}

// variants returns meaning-preserving and meaning-changing rewrites of e that a weak key function
// might confuse with it: permuted / duplicated operands, re-association, operator swap, NOT pairs.
func variants(rng *rand.Rand, e *vx.Expr) []*vx.Expr {
	out := []*vx.Expr{e, {Op: "not", E: e}, {Op: "not", E: &vx.Expr{Op: "not", E: e}}}
	if e.Op == "and" || e.Op == "or" {
		other := map[string]string{"and": "or", "or": "and"}[e.Op]
		perm := append([]*vx.Expr{}, e.Es...)
		rng.Shuffle(len(perm), func(i, j int) { perm[i], perm[j] = perm[j], perm[i] })
		out = append(out, &vx.Expr{Op: e.Op, Es: perm})
		out = append(out, &vx.Expr{Op: other, Es: e.Es})
		out = append(out, &vx.Expr{Op: e.Op, Es: append(append([]*vx.Expr{}, e.Es...), e.Es[rng.Intn(len(e.Es))])})
		out = append(out, &vx.Expr{Op: e.Op, Es: append(append([]*vx.Expr{}, e.Es...), e.Es[0], e.Es[0])})
		if len(e.Es) >= 2 {
			out = append(out, &vx.Expr{Op: e.Op, Es: []*vx.Expr{{Op: e.Op, Es: e.Es[:len(e.Es)-1]}, e.Es[len(e.Es)-1]}})
			out = append(out, &vx.Expr{Op: e.Op, Es: []*vx.Expr{{Op: other, Es: e.Es[:len(e.Es)-1]}, e.Es[len(e.Es)-1]}})
			out = append(out, &vx.Expr{Op: other, Es: []*vx.Expr{{Op: e.Op, Es: e.Es[1:]}, e.Es[0]}})
			out = append(out, &vx.Expr{Op: e.Op, Es: e.Es[:len(e.Es)-1]})
			// trailing operand moved into / out of a nested operator in the middle
			mid := &vx.Expr{Op: other, Es: []*vx.Expr{e.Es[0], e.Es[len(e.Es)-1]}}
			tail := e.Es[len(e.Es)-1]
			out = append(out, &vx.Expr{Op: e.Op, Es: []*vx.Expr{e.Es[0], mid, tail}})
			out = append(out, &vx.Expr{Op: e.Op, Es: []*vx.Expr{e.Es[0], {Op: other, Es: append(append([]*vx.Expr{}, mid.Es...), tail)}}})
		}
		// De Morgan shaped neighbour: NOT over the other operator of negated operands
		neg := []*vx.Expr{}
		for _, s := range e.Es {
			neg = append(neg, &vx.Expr{Op: "not", E: s})
		}
		out = append(out, &vx.Expr{Op: e.Op, Es: neg}, &vx.Expr{Op: "not", E: &vx.Expr{Op: other, Es: neg}})
	}
	return out
}

func recordCache(args []string) error {
	fs := flag.NewFlagSet("record-cache", flag.ExitOnError)
	out := fs.String("out", "", "trace file")
	seed := fs.Int64("seed", 1, "seed")
	runs := fs.Int("runs", 6, "scenarios")
	fs.Parse(args)
	w, err := vx.NewNDWriter(*out)
	if err != nil {
		return err
	}
	dir := vx.Scratch("reccache")
	defer os.RemoveAll(dir)
	r := &libRec{out: w, rng: rand.New(rand.NewSource(*seed)), dir: dir, hashes: map[string]int{}, paths: map[int]string{}}
	for i := 0; i < *runs; i++ {
		r.scenarioCache(i)
	}
	return w.Close()
}

func (r *libRec) scenarioCache(i int) {
	rng := r.rng
	ncols, nvals := 3, 3+rng.Intn(3)
	d := vx.SmallDict(rng, ncols+1, nvals+1)
	r.reset(d)
	r.hashOn = false
	var gens []colGen
	for c := 1; c <= ncols; c++ {
		k := 1 + rng.Intn(nvals)
		gens = append(gens, colGen{col: c, present: []float64{1, 0.8, 0.5}[rng.Intn(3)], gen: func(int) int { return 1 + rng.Intn(k) }})
	}
	rows := genDataset(rng, 5+rng.Intn(120), gens, rng.Intn(2))
	wr, ok := r.newWriter(1, kinds[rng.Intn(3)])
	if !ok {
		return
	}
	r.addRows(1, wr, rows)
	if !r.flush(1, wr) {
		return
	}
	var leaves [][2]int
	for c := 1; c <= ncols; c++ {
		for v := 1; v <= nvals+1; v++ {
			leaves = append(leaves, [2]int{c, v})
		}
	}
	eg := &exprGen{rng: rng, leaves: leaves}
	var qs []*vx.Expr
	for k := 0; k < 6; k++ {
		base := eg.tree(1+rng.Intn(3), 2+rng.Intn(3))
		qs = append(qs, variants(rng, base)...)
	}
	rng.Shuffle(len(qs), func(a, b int) { qs[a], qs[b] = qs[b], qs[a] })
	subs := map[string]*vx.Expr{}
	for _, q := range qs {
		subExprs(q, subs)
	}
	// real cache key of every sub-expression: first Get of evaluating it alone on a probe handle
	kids := map[uint64]int{}
	kid := func(k uint64) int {
		if id, ok := kids[k]; ok {
			return id
		}
		kids[k] = len(kids) + 1
		return kids[k]
	}
	// The node's own key is the key of the first Get (asked before anything is evaluated) and of the last
	// Put (stored after everything below it).  If an implementation orders its cache calls differently the
	// two differ and no KeyOf is logged for that expression (less is checked, nothing is assumed).
	var first, lastPut *uint64
	probe := &recCache{inner: nopCache{}, onGet: func(key uint64, _ *roaring.Bitmap, _ bool) {
		if first == nil {
			k := key
			first = &k
		}
	}, onPut: func(key uint64, _ *roaring.Bitmap) {
		k := key
		lastPut = &k
	}}
	pidx, err := openWith(r.path(1), "ondemand", probe)
	if err != nil {
		panic(err)
	}
	for _, e := range subs {
		first, lastPut = nil, nil
		vx.Exec(pidx, d.ToQuery(vx.Query{E: e}))
		if first != nil && lastPut != nil && *first == *lastPut {
			r.out.Emit(map[string]any{"ev": "KeyOf", "kid": kid(*first), "e": e})
		}
	}
	pidx.Close()
	// the handle under test: real LRU behind a recording wrapper
	capacity := []uint64{0, uint64(40 + rng.Intn(400)), uint64(40 + rng.Intn(1500)), 1 << 20}[rng.Intn(4)] // none, a few entries, some, all
	mode := modes[rng.Intn(2)]
	content := func(bm *roaring.Bitmap) []uint32 {
		if bm == nil {
			return []uint32{}
		}
		a := bm.ToArray()
		if a == nil {
			a = []uint32{}
		}
		return a
	}
	rc := &recCache{inner: updog.NewLRUCache(capacity)}
	rc.onGet = func(key uint64, bm *roaring.Bitmap, hit bool) {
		r.out.Emit(map[string]any{"ev": "CacheGet", "p": 1, "kid": kid(key), "hit": hit, "bm": content(bm)})
	}
	rc.onPut = func(key uint64, bm *roaring.Bitmap) {
		r.out.Emit(map[string]any{"ev": "CachePut", "p": 1, "kid": kid(key), "bm": content(bm)})
	}
	idx, err := openWith(r.path(1), mode, rc)
	r.out.Emit(map[string]any{"ev": "Open", "p": 1, "mode": mode, "cache": fmt.Sprintf("lru:%d", capacity), "ok": err == nil, "fh": -1})
	if err != nil {
		return
	}
	for rep := 0; rep < 2; rep++ {
		for _, q := range qs {
			var gb []int
			if rng.Intn(3) == 0 {
				for k := 1 + rng.Intn(3); k > 0; k-- {
					gb = append(gb, 1+rng.Intn(ncols))
				}
			}
			r.exec(1, idx, vx.Query{E: q, GB: gb})
		}
		// single tests grouped by their own column first (every matching row has that value) and another column
		for _, l := range leaves {
			if rng.Intn(2) == 0 {
				r.exec(1, idx, vx.Query{E: &vx.Expr{Op: "eq", Col: l[0], Val: l[1]}, GB: []int{l[0], 1 + l[0]%ncols}})
			}
		}
	}
	// caller-held expression trees, modified in place between executions (the query that is executed
	// is the tree as it is at that moment)
	for k := 0; k < 6; k++ {
		src := vx.CloneExpr(qs[rng.Intn(len(qs))])
		var lib []*updog.ExprEqual
		var ranks []*vx.Expr
		uq := &updog.Query{Expr: d.ToUpdogWithLeaves(src, &lib, &ranks)}
		for step := 0; step < 3 && len(lib) > 0; step++ {
			res := d.ResOf(vx.Exec(idx, uq))
			r.out.Emit(map[string]any{"ev": "Exec", "p": 1, "e": vx.CloneExpr(src), "gb": []int{}, "res": res, "fh": -1})
			i := rng.Intn(len(lib))
			nl := leaves[rng.Intn(len(leaves))]
			ranks[i].Col, ranks[i].Val = nl[0], nl[1]
			lib[i].Column, lib[i].Value = d.Col(nl[0]), d.Val(nl[1])
		}
	}
	// every single-leaf query again: stored / preloaded bitmaps must be unaltered
	for _, l := range leaves {
		r.exec(1, idx, vx.Query{E: &vx.Expr{Op: "eq", Col: l[0], Val: l[1]}})
	}
	r.close(1, idx)
}
