package main

import (
	"flag"
	"fmt"
	"math/rand"
	"os"
	"reflect"
	"strings"
	"time"

	"github.com/akrennmair/updog"
	"github.com/akrennmair/updog/zverif/internal/vx"
)

func init() { commands["record-lib"] = recordLib }

// libRec records library calls of one scenario run as Trace_Lib events.
type libRec struct {
	out    *vx.NDWriter
	rng    *rand.Rand
	dir    string
	dict   *vx.Dict
	hashes map[string]int
	paths  map[int]string
	n      int
	hashOn bool
	obs    map[int]*vx.ObsCounter // per path: observations of the ExecuteDuration metric of the open handle

	hangs    int // Flush calls that did not return in time: recording stops after two (each costs a minute)
	mapReuse int // writers created so far: every other one gets its rows through one re-used map
}

func (r *libRec) path(p int) string {
	if s, ok := r.paths[p]; ok {
		return s
	}
	r.n++
	s := vx.Join(r.dir, fmt.Sprintf("t%d_p%d.updog", r.n, p))
	r.paths[p] = s
	return s
}

func (r *libRec) fh(p int) int {
	if !r.hashOn {
		return -1
	}
	h := vx.FileHash(r.path(p))
	if h == "absent" {
		return 0
	}
	if id, ok := r.hashes[h]; ok {
		return id
	}
	id := len(r.hashes) + 1
	r.hashes[h] = id
	return id
}

func (r *libRec) reset(d *vx.Dict) {
	for _, p := range r.paths {
		os.Remove(p)
		os.Remove(p + ".tmpdb")
	}
	r.paths = map[int]string{}
	r.dict = d
	r.out.Emit(map[string]any{"ev": "Reset"})
	r.out.Emit(d.Event())
}

func rowsToJSON(rows []vx.Row) [][][2]int {
	out := make([][][2]int, len(rows))
	for i, r := range rows {
		if r == nil {
			out[i] = [][2]int{}
		} else {
			out[i] = r
		}
	}
	return out
}

// addRows adds rows through the real writer and logs them in batches with the returned ids.
func (r *libRec) addRows(p int, w *vx.Writer, rows []vx.Row) error {
	const batch = 4000
	for i := 0; i < len(rows); i += batch {
		j := i + batch
		if j > len(rows) {
			j = len(rows)
		}
		ids := make([]int, 0, j-i)
		// the caller's map belongs to the caller: in every other scenario one map is cleared and refilled for each row
		// (AddRow must have taken what it needs by the time it returns)
		reuse := r.mapReuse%2 == 1
		shared := map[string]string{}
		for _, row := range rows[i:j] {
			m := r.dict.RowMap(row)
			if reuse {
				for k := range shared {
					delete(shared, k)
				}
				for k, v := range m {
					shared[k] = v
				}
				m = shared
			}
			id, err := w.AddRow(m)
			if err != nil {
				return err
			}
			ids = append(ids, int(id))
		}
		if reuse {
			for k := range shared {
				shared[k] = "overwritten after AddRow returned"
			}
		}
		r.out.Emit(map[string]any{"ev": "AddRows", "p": p, "rows": rowsToJSON(rows[i:j]), "ids": ids})
	}
	return nil
}

func (r *libRec) newWriter(p int, kind string) (*vx.Writer, bool) {
	r.mapReuse++
	w, err := vx.NewWriter(kind, r.path(p))
	r.out.Emit(map[string]any{"ev": "NewWriter", "p": p, "kind": kind, "ok": err == nil, "fh": r.fh(p)})
	return w, err == nil
}

func (r *libRec) flush(p int, w *vx.Writer) bool {
	err := w.Flush()
	// a Flush that did not return within the harness' time limit is not an orderly failure
	hang := err != nil && strings.Contains(err.Error(), "(hang)")
	if hang {
		r.hangs++
	}
	r.out.Emit(map[string]any{"ev": "Flush", "p": p, "ok": err == nil, "hang": hang, "fh": r.fh(p)})
	return err == nil
}

func (r *libRec) open(p int, mode, cache string, capacity uint64) *updog.Index {
	if r.obs == nil {
		r.obs = map[int]*vx.ObsCounter{}
	}
	r.obs[p] = &vx.ObsCounter{}
	idx, err := vx.OpenObserved(r.path(p), mode, cache, capacity, r.obs[p])
	r.out.Emit(map[string]any{"ev": "Open", "p": p, "mode": mode, "cache": cache, "ok": err == nil, "fh": r.fh(p)})
	if err != nil {
		return nil
	}
	return idx
}

func (r *libRec) close(p int, idx *updog.Index) {
	if o := r.obs[p]; o != nil {
		r.out.Emit(map[string]any{"ev": "IndexMetrics", "p": p, "n": o.N.Load()})
	}
	idx.Close()
	r.out.Emit(map[string]any{"ev": "Close", "p": p, "fh": r.fh(p)})
}

func (r *libRec) schema(p int, idx *updog.Index) {
	s := idx.GetSchema()
	cols := []any{}
	for _, c := range s.Columns {
		vs := []int{}
		for _, v := range c.Values {
			vs = append(vs, r.dict.ValRank(v.Value))
		}
		cols = append(cols, []any{r.dict.ColRank(c.Name), vs})
	}
	r.out.Emit(map[string]any{"ev": "Schema", "p": p, "cols": cols, "fh": r.fh(p)})
	// the returned Schema is the caller's: re-order and overwrite it; the next GetSchema must not notice
	for i, j := 0, len(s.Columns)-1; i < j; i, j = i+1, j-1 {
		s.Columns[i], s.Columns[j] = s.Columns[j], s.Columns[i]
	}
	for i := range s.Columns {
		s.Columns[i].Name = "scribbled"
		vs := s.Columns[i].Values
		for a, b := 0, len(vs)-1; a < b; a, b = a+1, b-1 {
			vs[a], vs[b] = vs[b], vs[a]
		}
		for k := range vs {
			vs[k].Value = "by the caller"
		}
	}
}

func (r *libRec) exec(p int, idx *updog.Index, q vx.Query) vx.Res {
	g := r.dict.ResOf(vx.Exec(idx, r.dict.ToQuery(q)))
	gb := q.GB
	if gb == nil {
		gb = []int{}
	}
	r.out.Emit(map[string]any{"ev": "Exec", "p": p, "e": q.E, "gb": gb, "res": g, "fh": r.fh(p)})
	return g
}

// ---------------------------------------------------------------- data / query generators

type colGen struct {
	col     int
	present float64
	gen     func(i int) int // value rank for row i
	card    int             // number of distinct values it can produce
}

func genDataset(rng *rand.Rand, n int, gens []colGen, emptyTail int) []vx.Row {
	rows := make([]vx.Row, 0, n+emptyTail)
	for i := 0; i < n; i++ {
		var row vx.Row
		if rng.Float64() < 0.03 {
			rows = append(rows, vx.Row{})
			continue
		}
		for _, g := range gens {
			if rng.Float64() < g.present {
				row = append(row, [2]int{g.col, g.gen(i)})
			}
		}
		if row == nil {
			row = vx.Row{}
		}
		rows = append(rows, row)
	}
	for i := 0; i < emptyTail; i++ {
		rows = append(rows, vx.Row{})
	}
	return rows
}

type exprGen struct {
	rng    *rand.Rand
	leaves [][2]int // (col, val) pool: existing pairs, absent values, optionally an unknown column
	pool   []*vx.Expr
}

func (g *exprGen) leaf() *vx.Expr {
	l := g.leaves[g.rng.Intn(len(g.leaves))]
	return &vx.Expr{Op: "eq", Col: l[0], Val: l[1]}
}

// tree builds a random expression; sub-expressions are re-used (shared, duplicated operands).
func (g *exprGen) tree(depth, arity int) *vx.Expr {
	if depth <= 0 || g.rng.Intn(4) == 0 {
		return g.leaf()
	}
	if len(g.pool) > 0 && g.rng.Intn(5) == 0 {
		return g.pool[g.rng.Intn(len(g.pool))]
	}
	var e *vx.Expr
	switch g.rng.Intn(5) {
	case 0, 1:
		e = &vx.Expr{Op: "not", E: g.tree(depth-1, arity)}
	default:
		op := "and"
		if g.rng.Intn(2) == 0 {
			op = "or"
		}
		k := 1 + g.rng.Intn(arity)
		if g.rng.Intn(40) == 0 {
			k = []int{8, 15, 16, 17, 31, 32, 33, 64}[g.rng.Intn(8)] // operand counts around powers of two
			depth = 1
		}
		e = &vx.Expr{Op: op}
		for i := 0; i < k; i++ {
			if i > 0 && g.rng.Intn(6) == 0 {
				e.Es = append(e.Es, e.Es[g.rng.Intn(len(e.Es))]) // duplicate operand
			} else {
				e.Es = append(e.Es, g.tree(depth-1, arity))
			}
		}
	}
	if len(g.pool) < 50 {
		g.pool = append(g.pool, e)
	}
	return e
}

func recordLib(args []string) error {
	fs := flag.NewFlagSet("record-lib", flag.ExitOnError)
	out := fs.String("out", "", "trace file")
	seed := fs.Int64("seed", 1, "seed")
	scen := fs.String("scenario", "small", "small | boundary | large | reuse | clobber")
	sizes := fs.String("sizes", "", "comma separated row counts (boundary/large)")
	runs := fs.Int("runs", 4, "scenario repetitions")
	fs.Parse(args)
	w, err := vx.NewNDWriter(*out)
	if err != nil {
		return err
	}
	dir := vx.Scratch("reclib")
	defer os.RemoveAll(dir)
	r := &libRec{out: w, rng: rand.New(rand.NewSource(*seed)), dir: dir, hashes: map[string]int{}, paths: map[int]string{}}
	var sz []int
	for _, s := range strings.Split(*sizes, ",") {
		var n int
		if _, err := fmt.Sscan(s, &n); err == nil {
			sz = append(sz, n)
		}
	}
	switch *scen {
	case "small":
		for i := 0; i < *runs; i++ {
			r.scenarioSmall(i)
			if r.hangs >= 2 {
				break
			}
		}
	case "boundary", "large":
		for i, n := range sz {
			kind := kinds[i%3]
			if *scen == "large" {
				kind = kinds[(i+2)%3] // the first large size is built by the big writer
			}
			r.scenarioSized(i, n, *scen == "boundary", kind)
			if n > 1001 && n <= 5000 && kind != "big" {
				// beyond the 1000-row / 1000-value batches every size is also built by the big writer
				r.scenarioSized(i+1, n, *scen == "boundary" && n <= 2500, "big")
			}
		}
	case "reuse":
		for i := 0; i < *runs; i++ {
			r.scenarioReuse(i)
			if r.hangs >= 2 {
				break
			}
		}
	case "clobber":
		for i := 0; i < *runs; i++ {
			r.scenarioClobber(i)
			if r.hangs >= 2 {
				break
			}
		}
	case "overlap":
		for i := 0; i < *runs; i++ {
			r.scenarioOverlap(i)
			if r.hangs >= 2 {
				break
			}
		}
	default:
		return fmt.Errorf("unknown scenario %q", *scen)
	}
	for _, p := range r.paths {
		os.Remove(p)
	}
	return w.Close()
}

var kinds = []string{"mem", "memdb", "big"}
var modes = []string{"ondemand", "preload"}

// scenarioSmall: up to a few hundred rows over nasty strings, deep random expressions with
// shared sub-trees, group-by lists of length 0..6 incl. repeated and unknown columns,
// close / reopen in the other mode.
func (r *libRec) scenarioSmall(i int) {
	rng := r.rng
	ncols := 2 + rng.Intn(4)
	nvals := 3 + rng.Intn(12)
	d := vx.SmallDict(rng, ncols+1, nvals+1) // last column / last value never occur in the data
	r.reset(d)
	r.hashOn = i%2 == 0
	var gens []colGen
	for c := 1; c <= ncols; c++ {
		k := 1 + rng.Intn(nvals)
		gens = append(gens, colGen{col: c, present: []float64{1, 0.9, 0.5, 0.1}[rng.Intn(4)], gen: func(int) int { return 1 + rng.Intn(k) }, card: k})
	}
	n := []int{0, 1, 2, 3, 7, 30, 100, 300}[rng.Intn(8)]
	rows := genDataset(rng, n, gens, rng.Intn(3))
	kind := kinds[(i+rng.Intn(3))%3]
	wr, ok := r.newWriter(1, kind)
	if !ok {
		return
	}
	if err := r.addRows(1, wr, rows); err != nil {
		panic(err)
	}
	if !r.flush(1, wr) {
		return
	}
	var leaves [][2]int
	for c := 1; c <= ncols; c++ {
		for v := 1; v <= nvals+1; v++ {
			leaves = append(leaves, [2]int{c, v})
		}
	}
	used := map[int]bool{}
	for _, row := range rows {
		for _, p := range row {
			used[p[0]] = true
		}
	}
	eg := &exprGen{rng: rng, leaves: leaves}
	mode := modes[rng.Intn(2)]
	for round := 0; round < 2; round++ {
		idx := r.open(1, mode, "none", 0)
		if idx == nil {
			return
		}
		r.schema(1, idx)
		for q := 0; q < 40; q++ {
			e := eg.tree(1+rng.Intn(6), 1+rng.Intn(5))
			if rng.Intn(25) == 0 {
				e = &vx.Expr{Op: "and", Es: []*vx.Expr{e, {Op: "eq", Col: ncols + 1, Val: 1}}} // unknown column
			}
			var gb []int
			for k := rng.Intn(7); k > 0 && rng.Intn(3) > 0; k-- {
				c := 1 + rng.Intn(ncols)
				if rng.Intn(30) == 0 {
					c = ncols + 1
				}
				gb = append(gb, c)
				if rng.Intn(4) == 0 {
					gb = append(gb, gb[rng.Intn(len(gb))])
				}
			}
			if len(gb) > 6 {
				gb = gb[:6]
			}
			r.exec(1, idx, vx.Query{E: e, GB: gb})
		}
		// systematic operand counts 1..40 (first round only)
		for k := 1; round == 0 && k <= 40; k++ {
			e := &vx.Expr{Op: []string{"or", "and"}[k%2]}
			for j := 0; j < k; j++ {
				l := leaves[(j*7+k)%len(leaves)]
				x := &vx.Expr{Op: "eq", Col: l[0], Val: l[1]}
				if k%2 == 1 && j%2 == 1 {
					x = &vx.Expr{Op: "not", E: x}
				}
				e.Es = append(e.Es, x)
			}
			r.exec(1, idx, vx.Query{E: e})
		}
		// systematic group-by widths 7..70 (a column repeated, two columns alternating): second round only
		for w := 7; round == 1 && w <= 70; w++ {
			c1, c2 := 1+w%ncols, 1+(w/2)%ncols
			var gb []int
			for j := 0; j < w; j++ {
				if w%3 == 0 && j%2 == 1 {
					gb = append(gb, c2)
				} else {
					gb = append(gb, c1)
				}
			}
			l := leaves[(w*5)%len(leaves)]
			var e *vx.Expr = &vx.Expr{Op: "eq", Col: l[0], Val: l[1]}
			if w%2 == 0 {
				e = &vx.Expr{Op: "not", E: e}
			}
			r.exec(1, idx, vx.Query{E: e, GB: gb})
		}
		// count(col=v) for every value of every column through a group-by on a tautology
		for c := 1; c <= ncols; c++ {
			if used[c] {
				l := &vx.Expr{Op: "eq", Col: c, Val: 1}
				r.exec(1, idx, vx.Query{E: &vx.Expr{Op: "or", Es: []*vx.Expr{l, {Op: "not", E: l}}}, GB: []int{c}})
			}
		}
		r.schema(1, idx)
		r.close(1, idx)
		mode = modes[1-indexOf(modes, mode)]
	}
}

func indexOf(xs []string, s string) int {
	for i, x := range xs {
		if x == s {
			return i
		}
	}
	return 0
}

// scenarioSized: row counts around the batch sizes (1000 values / 1000 rows) and roaring's
// container boundaries; value distributions sparse / dense / run-shaped / unique-per-row.
func (r *libRec) scenarioSized(i, n int, unique bool, kind string) {
	rng := r.rng
	nv := 60
	if unique {
		nv = n + 5
		if nv < 1100 {
			nv = 1100
		}
	}
	vals := vx.PickSorted(rng, nil, nv, func(i int) string { return fmt.Sprintf("v%07d", i*7) })
	// a few nasty strings among the generated ones
	cols := vx.PickSorted(rng, []string{"a", "b", "caf\xc3\xa9", "d d", "u", "zz", "zzz"}, 7, nil)
	d := vx.NewDict(cols, vals)
	r.reset(d)
	r.hashOn = n <= 5000
	runlen := 1 + rng.Intn(1+n/7)
	gens := []colGen{
		{col: 1, present: 1, gen: func(int) int { return 1 + rng.Intn(5) }, card: 5}, // sparse random
		{col: 2, present: 0.97, gen: func(int) int {
			if rng.Intn(50) == 0 {
				return 2
			}
			return 1
		}, card: 2}, // dense
		{col: 3, present: 0.8, gen: func(i int) int { return 1 + (i/runlen)%7 }, card: 7}, // run-shaped
		{col: 4, present: 0.5, gen: func(int) int { return 1 + rng.Intn(40) }, card: 40},
	}
	if unique {
		gens = append(gens, colGen{col: 5, present: 1, gen: func(i int) int { return 1 + i }, card: n}) // unique per row
	}
	if n >= 8192 {
		// blocks of exactly 4096 rows per value (buffer / container sized runs)
		// (counted over the rows that carry the column, so every value but the last is held by exactly 4096 rows)
		carried := 0
		gens = append(gens, colGen{col: 6, present: 1, gen: func(int) int { carried++; return 1 + (carried-1)/4096 }, card: 1 + n/4096})
	}
	emptyTail := i % 2
	if kind == "big" {
		emptyTail = 1 + i%2 // the big writer always ends with rows that have no columns
	}
	rows := genDataset(rng, n, gens, emptyTail)
	wr, ok := r.newWriter(1, kind)
	if !ok {
		return
	}
	if err := r.addRows(1, wr, rows); err != nil {
		panic(err)
	}
	if !r.flush(1, wr) {
		return
	}
	idx := r.open(1, modes[i%2], "none", 0)
	if idx == nil {
		return
	}
	if n <= 5000 {
		r.schema(1, idx)
	}
	var leaves [][2]int
	for _, g := range gens[:4] {
		for v := 1; v <= g.card+1 && v <= 8; v++ {
			leaves = append(leaves, [2]int{g.col, v})
		}
	}
	eg := &exprGen{rng: rng, leaves: leaves}
	nq := 12
	if n > 5000 {
		nq = 6
	}
	for q := 0; q < nq; q++ {
		e := eg.tree(1+rng.Intn(3), 1+rng.Intn(3))
		var gb []int
		if q%3 == 0 {
			gb = []int{1 + rng.Intn(3)}
			if rng.Intn(2) == 0 {
				gb = append(gb, 1+rng.Intn(3))
			}
		}
		r.exec(1, idx, vx.Query{E: e, GB: gb})
	}
	taut := func(c int) *vx.Expr {
		l := &vx.Expr{Op: "eq", Col: c, Val: 1}
		return &vx.Expr{Op: "or", Es: []*vx.Expr{l, {Op: "not", E: l}}}
	}
	for c := 1; c <= 4; c++ {
		r.exec(1, idx, vx.Query{E: taut(c), GB: []int{c}})
	}
	// many partial groups before the next column is applied (40 x 7 x 5 value combinations)
	if n <= 2500 {
		r.exec(1, idx, vx.Query{E: taut(1), GB: []int{4, 3}})
		r.exec(1, idx, vx.Query{E: &vx.Expr{Op: "not", E: &vx.Expr{Op: "eq", Col: 2, Val: 2}}, GB: []int{4, 3, 1}})
		r.exec(1, idx, vx.Query{E: taut(3), GB: []int{3, 4, 1}})
	}
	if unique && n <= 3000 {
		// exact row membership: group by the unique column under a single test
		r.exec(1, idx, vx.Query{E: &vx.Expr{Op: "eq", Col: 1, Val: 2}, GB: []int{5}})
		r.exec(1, idx, vx.Query{E: taut(1), GB: []int{5}})
		r.close(1, idx)
		idx = r.open(1, modes[(i+1)%2], "none", 0)
		if idx == nil {
			return
		}
		r.exec(1, idx, vx.Query{E: &vx.Expr{Op: "not", E: &vx.Expr{Op: "eq", Col: 3, Val: 1}}, GB: []int{5}})
		// a handle with preloaded data and an ample cache: a wide group-by first, then queries that re-use
		// the same cached / preloaded bitmaps
		r.close(1, idx)
		idx = r.open(1, "preload", "lru", 1<<24)
		if idx == nil {
			return
		}
		sel := &vx.Expr{Op: "eq", Col: 1, Val: 2}
		r.exec(1, idx, vx.Query{E: sel, GB: []int{5}})
		r.exec(1, idx, vx.Query{E: sel})
		r.exec(1, idx, vx.Query{E: sel, GB: []int{1, 3}})
		r.exec(1, idx, vx.Query{E: taut(1), GB: []int{5}})
		r.exec(1, idx, vx.Query{E: taut(1), GB: []int{1}})
	}
	if n >= 8192 {
		r.exec(1, idx, vx.Query{E: taut(1), GB: []int{6}})
		r.exec(1, idx, vx.Query{E: &vx.Expr{Op: "eq", Col: 6, Val: 1}})
	}
	r.close(1, idx)
}

// scenarioReuse (C08): caller-held Query objects executed repeatedly on two indexes.
func (r *libRec) scenarioReuse(i int) {
	rng := r.rng
	d := vx.SmallDict(rng, 4, 5)
	r.reset(d)
	var idxs [3]*updog.Index
	for p := 1; p <= 2; p++ {
		gens := []colGen{
			{col: 1, present: 1, gen: func(int) int { return 1 + rng.Intn(3) }},
			{col: 2, present: 0.8, gen: func(int) int { return 1 + rng.Intn(4) }},
			{col: 3, present: 0.6, gen: func(int) int { return 1 + rng.Intn(2) }},
		}
		if p == 2 && rng.Intn(2) == 0 {
			gens = gens[:2] // column 3 unknown in the second index
		}
		rows := genDataset(rng, 5+rng.Intn(40), gens, 0)
		wr, ok := r.newWriter(p, kinds[rng.Intn(3)])
		if !ok {
			return
		}
		r.addRows(p, wr, rows)
		if !r.flush(p, wr) {
			return
		}
		cache := []string{"none", "lru"}[rng.Intn(2)]
		idxs[p] = r.open(p, modes[rng.Intn(2)], cache, 1<<20)
		if idxs[p] == nil {
			return
		}
	}
	var leaves [][2]int
	for c := 1; c <= 3; c++ {
		for v := 1; v <= 5; v++ {
			leaves = append(leaves, [2]int{c, v})
		}
	}
	eg := &exprGen{rng: rng, leaves: leaves}
	type held struct {
		q     vx.Query
		uq    *updog.Query
		clone *updog.Query
	}
	var hs []held
	for k := 0; k < 4; k++ {
		var gb []int
		for j := rng.Intn(4); j > 0; j-- {
			gb = append(gb, 1+rng.Intn(3))
		}
		q := vx.Query{E: eg.tree(1+rng.Intn(3), 3), GB: gb}
		if q.GB == nil {
			q.GB = []int{}
		}
		hs = append(hs, held{q: q, uq: d.ToQuery(q), clone: d.ToQuery(q)})
		r.out.Emit(map[string]any{"ev": "NewQuery", "qid": k + 1, "e": q.E, "gb": q.GB})
	}
	for s := 0; s < 14; s++ {
		k := rng.Intn(len(hs))
		p := 1 + rng.Intn(2)
		res := d.ResOf(vx.Exec(idxs[p], hs[k].uq))
		unchanged := reflect.DeepEqual(hs[k].uq.Expr, hs[k].clone.Expr) && reflect.DeepEqual(hs[k].uq.GroupBy, hs[k].clone.GroupBy)
		r.out.Emit(map[string]any{"ev": "ExecQ", "p": p, "qid": k + 1, "res": res, "unchanged": unchanged, "fh": -1})
	}
	// caller-held expression trees whose comparison leaves are edited in place between executions, on either index:
	// the query that is executed is the tree as it is at that moment
	for k := 0; k < 4; k++ {
		src := vx.CloneExpr(hs[rng.Intn(len(hs))].q.E)
		var lib []*updog.ExprEqual
		var ranks []*vx.Expr
		uq := &updog.Query{Expr: d.ToUpdogWithLeaves(src, &lib, &ranks)}
		for step := 0; step < 4 && len(lib) > 0; step++ {
			p := 1 + rng.Intn(2)
			res := d.ResOf(vx.Exec(idxs[p], uq))
			r.out.Emit(map[string]any{"ev": "Exec", "p": p, "e": vx.CloneExpr(src), "gb": []int{}, "res": res, "fh": -1})
			i := rng.Intn(len(lib))
			nl := leaves[rng.Intn(len(leaves))]
			ranks[i].Col, ranks[i].Val = nl[0], nl[1]
			lib[i].Column, lib[i].Value = d.Col(nl[0]), d.Val(nl[1])
		}
	}
	r.close(1, idxs[1])
	r.close(2, idxs[2])
}

// scenarioClobber (C16): pre-existing files of every kind are never overwritten by Flush and
// reading never modifies an index file.
func (r *libRec) scenarioClobber(i int) {
	rng := r.rng
	d := vx.SmallDict(rng, 3, 4)
	r.reset(d)
	r.hashOn = true
	gens := []colGen{
		{col: 1, present: 1, gen: func(int) int { return 1 + rng.Intn(3) }},
		{col: 2, present: 0.7, gen: func(int) int { return 1 + rng.Intn(3) }},
	}
	rows := genDataset(rng, rng.Intn(30), gens, 0)
	p := 1
	variant := i % 5
	switch variant {
	case 0: // empty file
		os.WriteFile(r.path(p), nil, 0644)
	case 1: // arbitrary bytes
		b := make([]byte, 1+rng.Intn(9000))
		rng.Read(b)
		os.WriteFile(r.path(p), b, 0644)
	case 2: // read-only arbitrary file
		os.WriteFile(r.path(p), []byte("read only"), 0444)
	case 3, 4: // a valid index written earlier
		w0, _ := vx.NewWriter("mem", r.path(p))
		for _, row := range genDataset(rng, 1+rng.Intn(20), gens, 0) {
			w0.AddRow(d.RowMap(row))
		}
		if err := w0.Flush(); err != nil {
			panic(err)
		}
		if variant == 4 {
			os.Chmod(r.path(p), 0444)
		}
	}
	r.out.Emit(map[string]any{"ev": "Plant", "p": p, "fh": r.fh(p)})
	// the occupant may be in use: a valid index held open by a reader (a server, another handle) while writers are
	// pointed at its path -- they must still be refused promptly
	var held *updog.Index
	if variant == 3 {
		held, _ = vx.Open(r.path(p), "ondemand", "none", 0)
	}
	for _, kind := range []string{"mem", "memdb", "big"} {
		wr, ok := r.newWriter(p, kind)
		if !ok {
			continue
		}
		r.addRows(p, wr, rows)
		if !r.flush(p, wr) && r.hangs < 2 {
			// the caller tries again with the same writer: the path still exists, so nothing may change
			r.flush(p, wr)
			r.flush(p, wr)
		}
		if r.hangs >= 2 {
			return
		}
		// the model has one writer slot per path: start the next attempt from a fresh slot
		r.out.Emit(map[string]any{"ev": "DropWriter", "p": p})
	}
	if held != nil {
		held.Close()
	}
	os.Chmod(r.path(p), 0644)
	// reading a valid index with every option combination must not modify it
	p = 2
	wr, ok := r.newWriter(p, kinds[i%3])
	if !ok {
		return
	}
	r.addRows(p, wr, rows)
	if !r.flush(p, wr) {
		return
	}
	leaves := [][2]int{{1, 1}, {1, 2}, {2, 1}, {2, 3}, {1, 4}}
	eg := &exprGen{rng: rng, leaves: leaves}
	for _, mode := range modes {
		for _, cache := range []string{"none", "lru"} {
			idx := r.open(p, mode, cache, uint64(rng.Intn(3))*4096)
			if idx == nil {
				return
			}
			r.schema(p, idx)
			for q := 0; q < 5; q++ {
				r.exec(p, idx, vx.Query{E: eg.tree(3, 3), GB: [][]int{{}, {1}, {2, 1}}[rng.Intn(3)]})
			}
			r.close(p, idx)
			idx.Close() // closing twice is allowed
			r.out.Emit(map[string]any{"ev": "Close", "p": p, "fh": r.fh(p)})
		}
	}
}

// scenarioOverlap (C16): while writer A is in the middle of Flush (the verif hook after one of its commits),
// writer B flushes to the same path.  The path exists by then, so B must fail and must not touch the file;
// A's index is what ends up there.
func (r *libRec) scenarioOverlap(i int) {
	rng := r.rng
	nv := []int{3, 1500, 2500}[i%3] // one, two, three transactions
	vals := vx.PickSorted(rng, nil, nv+2, func(i int) string { return "v" + padInt(i) })
	d := vx.NewDict([]string{"a", "who"}, vals)
	r.reset(d)
	r.hashOn = true
	mk := func(who int) []vx.Row {
		rows := make([]vx.Row, 0, nv)
		for k := 0; k < nv; k++ {
			rows = append(rows, vx.Row{{1, 1 + k}, {2, who}})
		}
		return rows
	}
	p := 1
	wa, ok := r.newWriter(p, []string{"mem", "memdb"}[i%2])
	if !ok {
		return
	}
	r.addRows(p, wa, mk(1))
	fired := 0
	updog.VerifHook = func(site string, arg uint64) {
		if site != "writer.commit" && site != "writer.commit.final" {
			return
		}
		fired++
		if fired != 1+i%2 && !(site == "writer.commit.final" && fired == 1) {
			return
		}
		updog.VerifHook = nil
		wb := updog.NewIndexWriter(r.path(p))
		for _, row := range mk(2) {
			wb.AddRow(d.RowMap(row))
		}
		// writer A is held inside its own Flush (this hook) while B flushes: B must come back with an error on its own
		done := make(chan error, 1)
		go func() {
			var ferr error
			if p := vx.Safely(func() { ferr = wb.Flush() }); p != nil {
				ferr = fmt.Errorf("panic in Flush: %s", p.Value)
			}
			done <- ferr
		}()
		var err error
		hang := false
		select {
		case err = <-done:
		case <-time.After(30 * time.Second):
			hang, err = true, fmt.Errorf("Flush did not return (hang)")
			r.hangs++
		}
		r.out.Emit(map[string]any{"ev": "FlushOverlap", "p": p, "ok": err == nil, "hang": hang})
	}
	r.flush(p, wa)
	updog.VerifHook = nil
	idx := r.open(p, modes[i%2], "none", 0)
	if idx == nil {
		return
	}
	taut := &vx.Expr{Op: "or", Es: []*vx.Expr{{Op: "eq", Col: 1, Val: 1}, {Op: "not", E: &vx.Expr{Op: "eq", Col: 1, Val: 1}}}}
	r.exec(p, idx, vx.Query{E: taut, GB: []int{2}})
	r.exec(p, idx, vx.Query{E: &vx.Expr{Op: "eq", Col: 2, Val: 2}})
	r.close(p, idx)
}
