package main

import (
	"encoding/json"
	"flag"
	"fmt"
	"math/rand"
	"os"
	"reflect"

	"github.com/akrennmair/updog"
	"github.com/akrennmair/updog/zverif/internal/vx"
)

func init() {
	commands["replay-reuse"] = replayReuse
	commands["probe-nul"] = probeNul
}

type reuseLine struct {
	Tag   string     `json:"tag"`
	Data  [][]vx.Row `json:"data"`
	Qs    []vx.Query `json:"qs"`
	Steps []struct {
		P   int    `json:"p"`
		Q   int    `json:"q"`
		Res vx.Res `json:"res"`
	} `json:"steps"`
}

// replay-reuse (C08): each TLC behaviour is a sequence of Exec(p, i) steps on two open indexes
// with caller-held Query objects; the real *updog.Query values are re-used across steps.
func replayReuse(args []string) error {
	fs := flag.NewFlagSet("replay-reuse", flag.ExitOnError)
	in := fs.String("in", "", "ndjson from Gen_Reuse")
	seed := fs.Int64("seed", 1, "seed")
	fs.Parse(args)
	rng := rand.New(rand.NewSource(*seed))
	dict := vx.SmallDict(rng, 4, 4)
	dir := vx.Scratch("replayreuse")
	defer os.RemoveAll(dir)
	rep := &vx.Report{}
	var idxs []*updog.Index
	var setup reuseLine
	err := vx.ReadLines(*in, func(line []byte) error {
		var ln reuseLine
		if err := json.Unmarshal(line, &ln); err != nil {
			return err
		}
		if ln.Tag == "setup" {
			setup = ln
			kinds := []string{"mem", "big"}
			modes := []string{"ondemand", "preload"}
			for i, rows := range ln.Data {
				path := vx.Join(dir, fmt.Sprintf("p%d.updog", i+1))
				w, err := vx.NewWriter(kinds[i%2], path)
				if err != nil {
					return err
				}
				for _, r := range rows {
					w.AddRow(dict.RowMap(r))
				}
				if err := w.Flush(); err != nil {
					return err
				}
				idx, err := vx.Open(path, modes[i%2], []string{"none", "lru"}[int(*seed)%2], 1<<16)
				if err != nil {
					return err
				}
				idxs = append(idxs, idx)
			}
			return nil
		}
		if ln.Tag != "beh" {
			return nil
		}
		rep.Behaviours++
		qs := make([]*updog.Query, len(setup.Qs))
		pristine := make([]*updog.Query, len(setup.Qs))
		for i, q := range setup.Qs {
			qs[i] = dict.ToQuery(q)
			pristine[i] = dict.ToQuery(q)
		}
		for si, st := range ln.Steps {
			rep.Steps++
			got := dict.ResOf(vx.Exec(idxs[st.P-1], qs[st.Q-1]))
			same := reflect.DeepEqual(qs[st.Q-1].Expr, pristine[st.Q-1].Expr) && reflect.DeepEqual(qs[st.Q-1].GroupBy, pristine[st.Q-1].GroupBy)
			if !got.Equal(st.Res) || !same {
				rep.Mismatch(map[string]any{"kind": "reuse", "step": si + 1, "steps": ln.Steps[:si+1], "got": got, "want": st.Res, "fieldsUnchanged": same, "queries": setup.Qs})
				break
			}
		}
		if len(rep.Samples) < 2 {
			rep.Samples = append(rep.Samples, ln.Steps)
		}
		return nil
	})
	if err != nil {
		return err
	}
	for _, i := range idxs {
		i.Close()
	}
	rep.Print()
	return nil
}

// probe-nul: the concrete witness of the byte-level key ambiguity col.NUL.val when a column name
// contains NUL (excluded from C01's quantifier, reported as a known finding).
func probeNul(args []string) error {
	dir := vx.Scratch("probenul")
	defer os.RemoveAll(dir)
	rep := &vx.Report{}
	for _, kind := range []string{"mem", "big"} {
		path := vx.Join(dir, kind+".updog")
		w, err := vx.NewWriter(kind, path)
		if err != nil {
			return err
		}
		w.AddRow(map[string]string{"a\x00b": "c"})
		w.AddRow(map[string]string{"a": "b\x00c"})
		if err := w.Flush(); err != nil {
			return err
		}
		idx, err := updog.OpenIndex(path)
		if err != nil {
			return err
		}
		res, err := idx.Execute(&updog.Query{Expr: &updog.ExprEqual{Column: "a", Value: "b\x00c"}})
		rep.Steps++
		rep.Behaviours++
		if err != nil || res.Count != 1 {
			c := uint64(0)
			if res != nil {
				c = res.Count
			}
			rep.Mismatch(map[string]any{"kind": "nul-column", "input": `rows {"a\x00b":"c"},{"a":"b\x00c"}; query a="b\x00c"`, "writer": kind, "want": 1, "got": c, "err": fmt.Sprint(err)})
		}
		idx.Close()
	}
	rep.Print()
	return nil
}
