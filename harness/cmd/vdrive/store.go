package main

import (
	"bytes"
	"encoding/json"
	"flag"
	"fmt"
	"io"
	"math/rand"
	"os"
	"os/exec"
	"path/filepath"
	"syscall"
	"time"

	"github.com/akrennmair/updog"
	"github.com/akrennmair/updog/zverif/internal/vx"
	"go.etcd.io/bbolt"
)

func init() {
	commands["replay-store"] = replayStore
	commands["record-crash"] = recordCrash
}

type storeLine struct {
	Tag  string `json:"tag"`
	File struct {
		Exists bool   `json:"exists"`
		Bucket bool   `json:"bucket"`
		S      string `json:"S"`
		I      string `json:"I"`
		V      string `json:"V"`
	} `json:"file"`
	Steps []struct {
		Op     string `json:"op"`
		Out    string `json:"out"`
		Free   bool   `json:"free"`
		Exists bool   `json:"exists"`
	} `json:"steps"`
}

// watchdog runs f; returns "hang" if it does not return in time, "panic" on panic.
func watchdog(d time.Duration, f func() error) (outcome string, err error) {
	type res struct {
		err error
		p   *vx.Panic
	}
	ch := make(chan res, 1)
	go func() {
		var e error
		p := vx.Safely(func() { e = f() })
		ch <- res{e, p}
	}()
	select {
	case r := <-ch:
		if r.p != nil {
			return "panic", fmt.Errorf("%s @ %s", r.p.Value, r.p.Stack)
		}
		if r.err != nil {
			return "err", r.err
		}
		return "ok", nil
	case <-time.After(d):
		return "hang", nil
	}
}

// lockFree reports whether path can be opened (and locked) right now.
func lockFree(path string) bool {
	db, err := bbolt.Open(path, 0644, &bbolt.Options{Timeout: 300 * time.Millisecond, ReadOnly: false})
	if err != nil {
		return false
	}
	db.Close()
	return true
}

// makeVariant derives the described file from a valid index using the bbolt API.
func makeVariant(dict *vx.Dict, dir string, n int, ln *storeLine) (string, error) {
	path := vx.Join(dir, fmt.Sprintf("v%d.updog", n))
	if !ln.File.Exists {
		// "does not exist" comes in several shapes: plainly missing, a dangling symbolic link (absolute or
		// relative target), a missing parent directory; none of them may be created by a failed open
		switch n % 4 {
		case 1:
			os.Symlink(path+".target", path)
		case 2:
			os.Symlink(fmt.Sprintf("v%d.updog.target", n), path)
		case 3:
			path = vx.Join(dir, fmt.Sprintf("nodir%d/v.updog", n))
		}
		return path, nil
	}
	if !ln.File.Bucket {
		db, err := bbolt.Open(path, 0644, nil)
		if err != nil {
			return "", err
		}
		return path, db.Close()
	}
	rows := []vx.Row{{{1, 1}, {2, 1}}, {{1, 2}}, {{1, 1}, {2, 2}}}
	bd := dict
	if ln.File.V == "garbage" && n%2 == 1 {
		// an index with several hundred bitmaps: the damaged one is the first, a middle or the last key
		vals := vx.PickSorted(rand.New(rand.NewSource(int64(n))), nil, 700, func(i int) string { return "v" + padInt(i) })
		bd = vx.NewDict([]string{"a", "b"}, vals)
		rows = nil
		for i := 0; i < 700; i++ {
			rows = append(rows, vx.Row{{1 + i%2, 1 + i}})
		}
	}
	if _, err := buildIndex(bd, dir, fmt.Sprintf("v%d.updog", n), "mem", rows); err != nil {
		return "", err
	}
	db, err := bbolt.Open(path, 0644, nil)
	if err != nil {
		return "", err
	}
	err = db.Update(func(tx *bbolt.Tx) error {
		b := tx.Bucket([]byte("data"))
		switch ln.File.S {
		case "missing":
			b.Delete([]byte("S"))
		case "garbage":
			b.Put([]byte("S"), []byte{0xff, 0xfe, 0x00, 0x13, 0x37})
		}
		switch ln.File.I {
		case "missing":
			b.Delete([]byte("I"))
		case "short":
			b.Put([]byte("I"), []byte{0, 3})
		case "long":
			b.Put([]byte("I"), []byte{0, 0, 0, 3, 0, 0, 0, 0})
		}
		if ln.File.V == "garbage" {
			var keys [][]byte
			c := b.Cursor()
			for k, _ := c.Seek([]byte("V")); k != nil && bytes.HasPrefix(k, []byte("V")); k, _ = c.Next() {
				keys = append(keys, append([]byte{}, k...))
			}
			if len(keys) == 0 {
				return fmt.Errorf("no V key to damage")
			}
			pos := []int{0, len(keys) / 2, len(keys) - 1, len(keys) / 3}[(n/2)%4]
			return b.Put(keys[pos], []byte{1, 2, 3})
		}
		return nil
	})
	if cerr := db.Close(); err == nil {
		err = cerr
	}
	return path, err
}

// replay-store (C15): every TLC-enumerated (file variant, history) on the real OpenIndex / Close.
func replayStore(args []string) error {
	fs := flag.NewFlagSet("replay-store", flag.ExitOnError)
	in := fs.String("in", "", "ndjson from MC_Store")
	seed := fs.Int64("seed", 1, "seed")
	fs.Parse(args)
	rng := rand.New(rand.NewSource(*seed))
	dict := vx.SmallDict(rng, 3, 3)
	dir := vx.Scratch("replaystore")
	defer os.RemoveAll(dir)
	rep := &vx.Report{}
	n := 0
	err := vx.ReadLines(*in, func(line []byte) error {
		var ln storeLine
		if err := json.Unmarshal(line, &ln); err != nil {
			return err
		}
		if ln.Tag != "store" {
			return nil
		}
		n++
		rep.Behaviours++
		path, err := makeVariant(dict, dir, n, &ln)
		if err != nil {
			return err
		}
		defer os.Remove(path)
		defer os.Remove(path + ".target")
		var idx *updog.Index
		for si, st := range ln.Steps {
			rep.Steps++
			var outcome string
			var oerr error
			switch st.Op {
			case "open", "openpre":
				mode := "ondemand"
				if st.Op == "openpre" {
					mode = "preload"
				}
				cache := []string{"none", "lru"}[rng.Intn(2)]
				var got *updog.Index
				outcome, oerr = watchdog(15*time.Second, func() error {
					i, err := vx.Open(path, mode, cache, 4096)
					got = i
					return err
				})
				if outcome == "ok" {
					idx = got
					// the handle is used before anything else happens to it: one query and the schema
					vx.Exec(idx, dict.ToQuery(vx.Query{E: &vx.Expr{Op: "eq", Col: 1, Val: 1}}))
					vx.Safely(func() { idx.GetSchema() })
				}
			case "close":
				outcome, oerr = watchdog(15*time.Second, func() error { return idx.Close() })
			}
			bad := ""
			if outcome != st.Out {
				bad = "outcome"
			} else if st.Free && ln.File.Exists && !lockFree(path) {
				bad = "file-not-released"
			}
			_, serr := os.Stat(path) // follows symbolic links: a created link target counts as existing
			if (serr == nil) != st.Exists {
				bad = "existence"
			}
			if !ln.File.Exists {
				if _, terr := os.Stat(path + ".target"); terr == nil {
					bad = "existence"
				}
			}
			if bad != "" {
				rep.Mismatch(map[string]any{"kind": "store-" + bad, "file": ln.File, "steps": ln.Steps[:si+1], "got": outcome, "err": fmt.Sprint(oerr), "want": st.Out})
				break
			}
		}
		if idx != nil {
			watchdog(2*time.Second, func() error { return idx.Close() })
			idx = nil
		}
		// what a path was earlier does not matter: once a complete index is there (a batch job finished, a copy
		// completed), opening it in the same process succeeds -- UpdogStore's outcome is a function of the file's parts
		if !ln.File.Exists || ln.File.S != "ok" || !ln.File.Bucket {
			os.Remove(path)
			os.MkdirAll(filepath.Dir(path), 0o755)
			later := []vx.Row{{{1, 1}}, {{1, 2}, {2, 1}}}
			w2, werr := vx.NewWriter("mem", path)
			if werr == nil {
				for _, r := range later {
					w2.AddRow(dict.RowMap(r))
				}
				werr = w2.Flush()
			}
			if werr == nil {
				rep.Steps++
				var got *updog.Index
				o, oerr := watchdog(15*time.Second, func() error {
					i, err := vx.Open(path, "ondemand", "none", 0)
					got = i
					return err
				})
				if o != "ok" {
					rep.Mismatch(map[string]any{"kind": "store-later-valid-index-refused", "file": ln.File, "steps": ln.Steps, "got": o, "err": fmt.Sprint(oerr)})
				} else {
					watchdog(5*time.Second, func() error { return got.Close() })
				}
			}
		}
		if len(rep.Samples) < 3 && n%97 == 3 {
			rep.Samples = append(rep.Samples, ln)
		}
		return nil
	})
	if err != nil {
		return err
	}
	rep.Print()
	return nil
}

// ---------------------------------------------------------------- crash recording (C06)

type rawProj struct {
	Exists, Readable, Bucket, Header, Torn bool
	NV                                     int
}

// project reads the raw bbolt file: what OpenIndex will look at.
func project(path string) rawProj {
	var p rawProj
	if _, err := os.Stat(path); err != nil {
		return p
	}
	p.Exists = true
	cp := path + ".proj"
	copyFile(path, cp)
	defer os.Remove(cp)
	db, err := bbolt.Open(cp, 0644, &bbolt.Options{Timeout: time.Second})
	if err != nil {
		return p
	}
	defer db.Close()
	p.Readable = true
	db.View(func(tx *bbolt.Tx) error {
		b := tx.Bucket([]byte("data"))
		if b == nil {
			return nil
		}
		p.Bucket = true
		s, i := b.Get([]byte("S")) != nil, b.Get([]byte("I")) != nil
		p.Header = s && i
		p.Torn = s != i
		c := b.Cursor()
		for k, _ := c.Seek([]byte("V")); k != nil && bytes.HasPrefix(k, []byte("V")); k, _ = c.Next() {
			p.NV++
		}
		return nil
	})
	return p
}

func copyFile(src, dst string) error {
	in, err := os.Open(src)
	if err != nil {
		return err
	}
	defer in.Close()
	out, err := os.Create(dst)
	if err != nil {
		return err
	}
	defer out.Close()
	_, err = io.Copy(out, in)
	return err
}

func (p rawProj) event(ev string) map[string]any {
	return map[string]any{"ev": ev, "exists": p.Exists, "readable": p.Readable || !p.Exists, "bucket": p.Bucket, "header": p.Header, "torn": p.Torn, "nv": p.NV}
}

type probeSet struct {
	d   *vx.Dict
	qs  []vx.Query
	ref []vx.Res
	sch string
}

func (ps *probeSet) run(idx *updog.Index) ([]vx.Res, string) {
	var out []vx.Res
	for _, q := range ps.qs {
		out = append(out, ps.d.ResOf(vx.Exec(idx, ps.d.ToQuery(q))))
	}
	return out, fmt.Sprint(idx.GetSchema())
}

var crashHangs int // opens that did not return: recording stops after a few (each costs the watchdog's patience)

// crashOpen opens a surviving file with the real OpenIndex (both modes) and classifies the outcome.
func crashOpen(path string, ps *probeSet) map[string]any {
	ev := map[string]any{"ev": "CrashOpen", "same": false}
	if _, err := os.Stat(path); err != nil {
		ev["outcome"] = "absent"
		return ev
	}
	outcome := ""
	same := true
	for _, mode := range []string{"ondemand", "preload"} {
		if outcome == "hang" {
			break // the stuck open still holds the file: the second mode would only wait for it
		}
		var idx *updog.Index
		o, _ := watchdog(20*time.Second, func() error {
			i, err := vx.Open(path, mode, "none", 0)
			idx = i
			return err
		})
		cur := map[string]string{"ok": "opened", "err": "rejected", "panic": "panic", "hang": "hang"}[o]
		if cur == "hang" {
			crashHangs++
		}
		if cur == "opened" {
			res, sch := ps.run(idx)
			for i := range res {
				if !res[i].Equal(ps.ref[i]) {
					same = false
				}
			}
			if sch != ps.sch {
				same = false
			}
			idx.Close()
		}
		if outcome == "" {
			outcome = cur
		} else if outcome != cur {
			outcome = outcome + "/" + cur // modes disagree: matches no specification outcome
		}
	}
	ev["outcome"] = outcome
	ev["same"] = same
	return ev
}

// record-crash: (a) commit-point snapshots of all three writers through the verif hook;
// (b) `updog create [-b]` on a large CSV SIGKILLed at seeded instants.
func recordCrash(args []string) error {
	fs := flag.NewFlagSet("record-crash", flag.ExitOnError)
	out := fs.String("out", "", "trace file")
	seed := fs.Int64("seed", 1, "seed")
	sizes := fs.String("values", "0,5,999,1000,1001,2500", "distinct (column,value) pairs per dataset")
	updogBin := fs.String("updog", "", "built updog binary for the kill runs")
	kills := fs.Int("kills", 10, "SIGKILL runs per mode")
	fs.Parse(args)
	w, err := vx.NewNDWriter(*out)
	if err != nil {
		return err
	}
	dir := vx.Scratch("reccrash")
	defer os.RemoveAll(dir)
	rng := rand.New(rand.NewSource(*seed))
	nfile := 0
	for _, nv := range splitInts(*sizes) {
		for _, kind := range []string{"mem", "memdb", "big"} {
			nfile++
			// dataset with exactly nv distinct (column,value) pairs; rows on both sides of 1000 too
			nrows := nv + rng.Intn(5)
			if nv > 0 && nrows < 1200 && rng.Intn(2) == 0 {
				nrows = 1000 + rng.Intn(1500)
			}
			vals := vx.PickSorted(rng, nil, nv+2, func(i int) string { return "v" + padInt(i) })
			d := vx.NewDict([]string{"a", "b"}, vals)
			rows := make([]vx.Row, 0, nrows)
			for i := 0; i < nrows && nv > 0; i++ {
				k := i % nv // pair number k: column 1 + k%2, value 1 + k/2
				row := vx.Row{{1 + k%2, 1 + k/2}}
				if j := rng.Intn(nv); j%2 != k%2 {
					row = append(row, [2]int{1 + j%2, 1 + j/2})
				}
				rows = append(rows, row)
			}
			distinct := map[[2]int]bool{}
			for _, r := range rows {
				for _, p := range r {
					distinct[p] = true
				}
			}
			path := vx.Join(dir, fmt.Sprintf("c%d.updog", nfile))
			var snaps []string
			updog.VerifHook = func(site string, arg uint64) {
				switch site {
				case "writer.commit", "writer.commit.final", "bigwriter.tempcommit", "bigwriter.tempcommit.final", "bigwriter.commit.final":
					s := fmt.Sprintf("%s.snap%d", path, len(snaps))
					copyFile(path, s)
					snaps = append(snaps, s)
				}
			}
			wr, err := vx.NewWriter(kind, path)
			if err != nil {
				return err
			}
			for _, r := range rows {
				wr.AddRow(d.RowMap(r))
			}
			if err := wr.Flush(); err != nil {
				return err
			}
			updog.VerifHook = nil
			if len(snaps) == 0 {
				return fmt.Errorf("no commit hook fired for %s writer (hook missing?)", kind)
			}
			// reference answers from the complete index
			ps := &probeSet{d: d}
			taut := &vx.Expr{Op: "or", Es: []*vx.Expr{{Op: "eq", Col: 1, Val: 1}, {Op: "not", E: &vx.Expr{Op: "eq", Col: 1, Val: 1}}}}
			if nv > 0 {
				ps.qs = append(ps.qs, vx.Query{E: taut}, vx.Query{E: taut, GB: []int{1}})
				stepq := 1 + nv/60
				for k := 0; k < nv; k += stepq {
					ps.qs = append(ps.qs, vx.Query{E: &vx.Expr{Op: "eq", Col: 1 + k%2, Val: 1 + k/2}})
				}
			}
			idx, err := vx.Open(path, "ondemand", "none", 0)
			if err != nil {
				return fmt.Errorf("complete index does not open: %v", err)
			}
			ps.ref, ps.sch = ps.run(idx)
			idx.Close()
			w.Emit(map[string]any{"ev": "Begin", "kind": kind, "big": kind == "big", "total": len(distinct), "batch": 1000, "rows": len(rows), "occupied": false})
			// crash before the first commit: the file as exclusive creation leaves it
			empty := path + ".created"
			db, _ := bbolt.Open(empty, 0644, nil)
			db.Close()
			w.Emit(project(empty).event("Snap"))
			w.Emit(crashOpen(empty, ps))
			os.Remove(empty)
			for _, s := range snaps {
				w.Emit(project(s).event("Snap"))
				w.Emit(crashOpen(s, ps))
				os.Remove(s)
			}
			// the same data written once more by a fresh in-memory writer onto the now occupied path (the complete index is
			// still there): Flush must be refused before any transaction commits -- re-creating in place would leave, after
			// a crash, a file that opens and mixes two indexes
			if kind == "mem" {
				before := vx.FileHash(path)
				var resnaps []string
				commits := 0
				updog.VerifHook = func(site string, arg uint64) {
					if site == "writer.commit" || site == "writer.commit.final" {
						commits++
						sn := fmt.Sprintf("%s.resnap%d", path, len(resnaps))
						copyFile(path, sn)
						resnaps = append(resnaps, sn)
					}
				}
				w2, err := vx.NewWriter("mem", path)
				if err != nil {
					return err
				}
				for i, r := range rows {
					if i%2 == 0 { // other data than what the file holds
						w2.AddRow(d.RowMap(r))
					}
				}
				ferr := w2.Flush()
				updog.VerifHook = nil
				w.Emit(map[string]any{"ev": "Begin", "kind": kind, "big": false, "total": len(distinct), "batch": 1000, "rows": len(rows), "occupied": true})
				for _, sn := range resnaps {
					w.Emit(project(sn).event("Snap"))
					w.Emit(crashOpen(sn, ps))
					os.Remove(sn)
				}
				w.Emit(map[string]any{"ev": "Refused", "failed": ferr != nil, "commits": commits, "unchanged": vx.FileHash(path) == before})
			}
			os.Remove(path)
			if crashHangs >= 3 {
				return w.Close() // the trace already shows the hangs; what follows would only repeat them
			}
		}
	}
	if *updogBin != "" {
		if err := killRuns(w, rng, dir, *updogBin, *kills); err != nil {
			return err
		}
	}
	return w.Close()
}

// killRuns: `updog create [-b]` on a CSV with >2000 distinct values, SIGKILLed after a seeded delay
// (including 0 and "after it finished").
func killRuns(w *vx.NDWriter, rng *rand.Rand, dir, bin string, kills int) error {
	nrows, nv := 20000, 6000
	csvPath := vx.Join(dir, "in.csv")
	var buf bytes.Buffer
	buf.WriteString("a,b\n")
	distinct := map[string]bool{}
	d := vx.NewDict([]string{"a", "b"}, vx.PickSorted(rng, nil, nv, func(i int) string { return "v" + padInt(i) }))
	for i := 0; i < nrows; i++ {
		a, b := 1+i%(nv/2), 1+(i*7)%(nv/2)
		fmt.Fprintf(&buf, "%s,%s\n", d.Val(a), d.Val(b))
		distinct[fmt.Sprint("a", a)] = true
		distinct[fmt.Sprint("b", b)] = true
	}
	if err := os.WriteFile(csvPath, buf.Bytes(), 0644); err != nil {
		return err
	}
	// reference: complete run
	ref := vx.Join(dir, "ref.updog")
	if o, err := exec.Command(bin, "create", "-o", ref, csvPath).CombinedOutput(); err != nil {
		return fmt.Errorf("updog create failed: %v %s", err, o)
	}
	ps := &probeSet{d: d}
	taut := &vx.Expr{Op: "or", Es: []*vx.Expr{{Op: "eq", Col: 1, Val: 1}, {Op: "not", E: &vx.Expr{Op: "eq", Col: 1, Val: 1}}}}
	ps.qs = append(ps.qs, vx.Query{E: taut})
	for k := 1; k <= nv/2; k += 40 {
		ps.qs = append(ps.qs, vx.Query{E: &vx.Expr{Op: "eq", Col: 1, Val: k}}, vx.Query{E: &vx.Expr{Op: "eq", Col: 2, Val: k}})
	}
	idx, err := vx.Open(ref, "ondemand", "none", 0)
	if err != nil {
		return err
	}
	ps.ref, ps.sch = ps.run(idx)
	idx.Close()
	// how long does a full run take? (used to spread the kill instants)
	t0 := time.Now()
	exec.Command(bin, "create", "-o", vx.Join(dir, "timing.updog"), csvPath).Run()
	full := time.Since(t0)
	os.Remove(vx.Join(dir, "timing.updog"))
	for _, big := range []bool{false, true} {
		for k := 0; k < kills; k++ {
			outp := vx.Join(dir, fmt.Sprintf("kill_%v_%d.updog", big, k))
			argv := []string{"create", "-o", outp}
			if big {
				argv = append(argv, "-b")
			}
			argv = append(argv, csvPath)
			cmd := exec.Command(bin, argv...)
			cmd.Env = append(os.Environ(), "TMPDIR="+dir)
			if k%4 >= 2 {
				// the temporary directory on another file system than the output (e.g. /tmp on disk, the output in memory):
				// whatever is built there cannot be renamed into place
				if other, terr := os.MkdirTemp("/var/tmp", "updogverif_tmp_"); terr == nil {
					defer os.RemoveAll(other)
					cmd.Env = append(os.Environ(), "TMPDIR="+other)
				}
			}
			if err := cmd.Start(); err != nil {
				return err
			}
			mult := 1.0
			if big {
				mult = 4
			}
			delay := time.Duration(float64(full) * mult * 1.3 * float64(k) / float64(kills))
			if k%2 == 1 {
				// kill at an observable progress point of the output file instead of a wall-clock instant
				threshold := []int64{1, 16 << 10, 40 << 10, 70 << 10, 100 << 10, 140 << 10, 200 << 10, 300 << 10, 500 << 10, 1 << 20}[(k/2)%10]
				deadline := time.Now().Add(20 * time.Second)
				for time.Now().Before(deadline) {
					if st, err := os.Stat(outp); err == nil && st.Size() >= threshold {
						break
					}
					if cmd.ProcessState != nil {
						break
					}
					time.Sleep(100 * time.Microsecond)
				}
			} else {
				time.Sleep(delay)
			}
			cmd.Process.Signal(syscall.SIGKILL)
			cmd.Wait()
			w.Emit(map[string]any{"ev": "Begin", "kind": "cli", "big": big, "total": len(distinct), "batch": 1000, "rows": nrows, "delay_ms": delay.Milliseconds(), "occupied": false})
			w.Emit(project(outp).event("Kill"))
			w.Emit(crashOpen(outp, ps))
			os.Remove(outp)
			if crashHangs >= 3 {
				return nil
			}
		}
	}
	return wideKillRuns(w, rng, dir, bin, 1+kills/4)
}

// wideKillRuns: `updog create --big` on a CSV with several million (row, column) entries but few distinct values,
// SIGKILLed at the first moment the output file changes after its creation (the first commit into the output) and at
// a few instants of the insertion phase.
func wideKillRuns(w *vx.NDWriter, rng *rand.Rand, dir, bin string, kills int) error {
	const nrows, ncols = 330000, 8
	csvPath := vx.Join(dir, "wide.csv")
	var buf bytes.Buffer
	buf.WriteString("ca,cb,cc,cd,ce,cf,cg,ch\n") // letters only: `updog create` turns every other character into '_'
	seenPairs := map[[2]int]bool{}
	vals := vx.PickSorted(rng, nil, 30, func(i int) string { return "w" + padInt(i) })
	cols := []string{"ca", "cb", "cc", "cd", "ce", "cf", "cg", "ch"}
	d := vx.NewDict(cols, vals)
	for i := 0; i < nrows; i++ {
		for k := 0; k < ncols; k++ {
			if k > 0 {
				buf.WriteByte(',')
			}
			v := 1 + (i*(k+3))%(5+3*k)
			seenPairs[[2]int{k, v}] = true
			buf.WriteString(d.Val(v))
		}
		buf.WriteByte('\n')
	}
	nvals := len(seenPairs)
	if err := os.WriteFile(csvPath, buf.Bytes(), 0644); err != nil {
		return err
	}
	defer os.Remove(csvPath)
	ref := vx.Join(dir, "wide_ref.updog")
	if o, err := exec.Command(bin, "create", "-o", ref, csvPath).CombinedOutput(); err != nil {
		return fmt.Errorf("updog create (wide) failed: %v %s", err, o)
	}
	defer os.Remove(ref)
	ps := &probeSet{d: d}
	for k := 0; k < ncols; k++ {
		for v := 1; v <= 5+3*k; v += 2 {
			l := &vx.Expr{Op: "eq", Col: k + 1, Val: v}
			ps.qs = append(ps.qs, vx.Query{E: l}, vx.Query{E: &vx.Expr{Op: "not", E: l}})
		}
	}
	idx, err := vx.Open(ref, "ondemand", "none", 0)
	if err != nil {
		return err
	}
	ps.ref, ps.sch = ps.run(idx)
	idx.Close()
	for k := 0; k < kills; k++ {
		outp := vx.Join(dir, fmt.Sprintf("widekill_%d.updog", k))
		cmd := exec.Command(bin, "create", "-b", "-o", outp, csvPath)
		cmd.Env = append(os.Environ(), "TMPDIR="+dir)
		if err := cmd.Start(); err != nil {
			return err
		}
		done := make(chan struct{})
		go func() { cmd.Wait(); close(done) }()
		if k%3 == 2 {
			time.Sleep(time.Duration(50+rng.Intn(400)) * time.Millisecond) // somewhere in the insertion phase
		} else {
			// wait for the output to exist, remember what it looks like, kill at its first change
			var first os.FileInfo
			deadline := time.Now().Add(60 * time.Second)
		poll:
			for time.Now().Before(deadline) {
				select {
				case <-done:
					break poll
				default:
				}
				st, err := os.Stat(outp)
				if err == nil {
					if first == nil {
						first = st
					} else if st.Size() != first.Size() || !st.ModTime().Equal(first.ModTime()) {
						if k%3 == 1 {
							time.Sleep(time.Duration(rng.Intn(40)) * time.Millisecond) // a little later: between two output commits, if there are several
						}
						break poll
					}
				}
				time.Sleep(50 * time.Microsecond)
			}
		}
		cmd.Process.Signal(syscall.SIGKILL)
		<-done
		w.Emit(map[string]any{"ev": "Begin", "kind": "cli", "big": true, "total": nvals, "batch": 1000, "rows": nrows, "delay_ms": 0, "occupied": false})
		w.Emit(project(outp).event("Kill"))
		w.Emit(crashOpen(outp, ps))
		os.Remove(outp)
		if crashHangs >= 3 {
			return nil
		}
	}
	return nil
}
