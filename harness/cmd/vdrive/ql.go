package main

import (
	"encoding/json"
	"flag"
	"math/rand"
	"runtime"
	"strings"
	"time"

	"github.com/akrennmair/updog/internal/queryparser"
	proto "github.com/akrennmair/updog/proto/updog/v1"
	"github.com/akrennmair/updog/zverif/internal/vx"
)

func init() {
	commands["replay-parse"] = replayParse
	commands["record-parse"] = recordParse
	commands["record-roundtrip"] = recordRoundTrip
}

type parseOutcome struct {
	Both  bool
	Ok    bool
	E     *vx.QTree
	GB    [][]int
	Panic string
	Leak  bool
}

var baseGoroutines int
var leaksSeen int // after a few reported leaks the verdict is in; stop piling up goroutines

// parserGoroutines counts live goroutines with a frame of package internal/queryparser.
func parserGoroutines() int {
	buf := make([]byte, 1<<20)
	n := runtime.Stack(buf, true)
	c := 0
	for _, g := range strings.Split(string(buf[:n]), "\n\n") {
		if strings.Contains(g, "internal/queryparser.") {
			c++
		}
	}
	return c
}

// parseReal runs the real ParseQuery under recover and checks that it left no goroutine behind.
func parseReal(s string) parseOutcome {
	var q *proto.Query
	var err error
	var out parseOutcome
	if p := vx.Safely(func() { q, err = queryparser.ParseQuery(s) }); p != nil {
		out.Panic = p.Value
	} else if err != nil && q != nil {
		out.Both = true // "an error and no query": a rejected input must not hand out a (partial) query as well
	} else if err == nil && q != nil {
		out.Ok = true
		out.E = vx.FromProto(q.Expr)
		out.GB = [][]int{}
		for _, f := range q.GroupBy {
			out.GB = append(out.GB, vx.BytesOf(f))
		}
	}
	// the lexer goroutine must be gone (it may need a moment to exit after closing the channel)
	if leaksSeen < 5 && runtime.NumGoroutine() > baseGoroutines {
		deadline := time.Now().Add(3 * time.Second)
		for runtime.NumGoroutine() > baseGoroutines && time.Now().Before(deadline) {
			runtime.Gosched()
			time.Sleep(50 * time.Microsecond)
		}
		if runtime.NumGoroutine() > baseGoroutines && parserGoroutines() > 0 {
			out.Leak = true
			leaksSeen++
			baseGoroutines = runtime.NumGoroutine() // attribute later leaks to later inputs
		}
	}
	return out
}

type parseLine struct {
	M  []string  `json:"m"` // macro tokens (token-level enumeration): rendered to text by the harness
	S  []int     `json:"s"`
	Ok bool      `json:"ok"`
	E  *vx.QTree `json:"e"`
	GB [][]int   `json:"gb"`
}

func eqGB(a, b [][]int) bool {
	if len(a) != len(b) {
		return false
	}
	for i := range a {
		if vx.StringOf(a[i]) != vx.StringOf(b[i]) {
			return false
		}
	}
	return true
}

// replay-parse (C09): every TLC-enumerated byte string with the verdict and tree of the TLA+ parser.
func replayParse(args []string) error {
	fs := flag.NewFlagSet("replay-parse", flag.ExitOnError)
	in := fs.String("in", "", "ndjson from MC_QL")
	fs.Parse(args)
	baseGoroutines = runtime.NumGoroutine()
	rep := &vx.Report{}
	accepted := 0
	err := vx.ReadLines(*in, func(line []byte) error {
		var ln parseLine
		if err := json.Unmarshal(line, &ln); err != nil {
			return err
		}
		if leaksSeen >= 5 {
			return nil // every rejected input leaks a goroutine: the verdict is in, do not pile up goroutines
		}
		rep.Behaviours++
		rep.Steps++
		s := vx.StringOf(ln.S)
		if ln.M != nil {
			// C is a = "x", P is b = $2, F is c (the values MC_QL's Expand uses); spacing varies
			var parts []string
			for _, m := range ln.M {
				switch m {
				case "C":
					parts = append(parts, "a=\"x\"")
				case "P":
					parts = append(parts, "b = $2")
				case "F":
					parts = append(parts, "c")
				default:
					parts = append(parts, m)
				}
			}
			s = strings.Join(parts, []string{" ", "", "  ", "\t"}[rep.Behaviours%4])
			if rep.Behaviours%4 == 1 {
				s = strings.Join(parts, " ") // identifiers would merge without a separator
			}
			ln.S = vx.BytesOf(s)
		}
		got := parseReal(s)
		bad := ""
		switch {
		case got.Panic != "":
			bad = "panic"
		case got.Leak:
			bad = "goroutine-leak"
		case got.Both:
			bad = "error-with-query"
		case got.Ok != ln.Ok:
			bad = "verdict"
		case ln.Ok && (!got.E.Equal(ln.E) || !eqGB(got.GB, ln.GB)):
			bad = "tree"
		}
		if bad != "" {
			rep.Mismatch(map[string]any{"kind": "parse-" + bad, "input": s, "bytes": ln.S, "want_ok": ln.Ok, "got_ok": got.Ok, "want": ln.E, "got": got.E, "panic": got.Panic})
		}
		if ln.Ok {
			accepted++
			if len(rep.Samples) < 4 && accepted%97 == 1 {
				rep.Samples = append(rep.Samples, map[string]any{"input": s, "tree": ln.E})
			}
		}
		return nil
	})
	if err != nil {
		return err
	}
	rep.Distinct = rep.Behaviours
	rep.Notes = map[string]any{"accepted": accepted}
	rep.Print()
	return nil
}

// ---------------------------------------------------------------- random direction

type qgen struct {
	rng *rand.Rand
}

var valuePool = []string{"", "x", "a b", "\"", "\"\"", "a\"b", "line\nbreak", "caf\xc3\xa9", "\xff\xfe", "$1", "a=b", ";", "(", "x,y", "\t", "\x00", "0"}
var fieldPool = []string{"a", "b", "foo", "Bar", "a_1", "Z9_", "count", "x"}

func (g *qgen) leaf(allowPh bool) *vx.QTree {
	t := &vx.QTree{Op: "eq", Col: vx.BytesOf(fieldPool[g.rng.Intn(len(fieldPool))])}
	if allowPh && g.rng.Intn(3) == 0 {
		t.Ph = []int{1, 2, 3, 7, 10, 2147483647}[g.rng.Intn(6)]
		t.Val = []int{}
	} else {
		v := valuePool[g.rng.Intn(len(valuePool))]
		if g.rng.Intn(4) == 0 {
			b := make([]byte, g.rng.Intn(6))
			g.rng.Read(b)
			v = string(b)
		}
		t.Val = vx.BytesOf(v)
	}
	return t
}

func (g *qgen) tree(depth, arity int, allowPh bool) *vx.QTree {
	if depth <= 0 || g.rng.Intn(4) == 0 {
		return g.leaf(allowPh)
	}
	switch g.rng.Intn(4) {
	case 0:
		return &vx.QTree{Op: "not", E: g.tree(depth-1, arity, allowPh)}
	default:
		op := []string{"and", "or"}[g.rng.Intn(2)]
		t := &vx.QTree{Op: op}
		for i := 1 + g.rng.Intn(arity); i > 0; i-- {
			t.Es = append(t.Es, g.tree(depth-1, arity, allowPh))
		}
		return t
	}
}

// sentence renders a tree with random spacing / redundant parentheses (not the real formatter).
func (g *qgen) sentence(t *vx.QTree, top bool) string {
	sp := func() string { return []string{"", " ", "  ", "\t", "\n", " \r\n "}[g.rng.Intn(6)] }
	var s string
	switch t.Op {
	case "eq":
		s = vx.StringOf(t.Col) + sp() + "=" + sp()
		if t.Ph > 0 {
			s += "$" + itoa(t.Ph)
		} else {
			s += "\"" + strings.ReplaceAll(vx.StringOf(t.Val), "\"", "\"\"") + "\""
		}
	case "not":
		s = "^" + sp() + g.sentence(t.E, false)
	default:
		sep := map[string]string{"and": "&", "or": "|"}[t.Op]
		var parts []string
		for _, e := range t.Es {
			parts = append(parts, g.sentence(e, false))
		}
		s = strings.Join(parts, sp()+sep+sp())
		if !top || len(t.Es) == 1 {
			s = "(" + sp() + s + sp() + ")"
		}
		return s
	}
	if g.rng.Intn(8) == 0 {
		s = "(" + sp() + s + sp() + ")"
	}
	return s
}

func itoa(n int) string {
	if n == 0 {
		return "0"
	}
	var b []byte
	for n > 0 {
		b = append([]byte{byte('0' + n%10)}, b...)
		n /= 10
	}
	return string(b)
}

func mutate(rng *rand.Rand, s string) string {
	toks := []string{"(", ")", "&", "|", "^", "=", ",", ";", "\"", "$", "$0", "$4294967297", "$99999999999999999999", "a", " ", "\"x", "\xff", "\x00", "#", "$2147483648", "$2147483647"}
	b := []byte(s)
	switch rng.Intn(6) {
	case 0: // drop a byte
		if len(b) > 0 {
			i := rng.Intn(len(b))
			b = append(b[:i], b[i+1:]...)
		}
	case 1: // insert a token
		i := rng.Intn(len(b) + 1)
		b = append(b[:i], append([]byte(toks[rng.Intn(len(toks))]), b[i:]...)...)
	case 2: // duplicate a slice
		if len(b) > 1 {
			i := rng.Intn(len(b) - 1)
			j := i + 1 + rng.Intn(len(b)-i-1)
			b = append(b[:j], append(append([]byte{}, b[i:j]...), b[j:]...)...)
		}
	case 3: // trailing token
		b = append(b, []byte(" "+toks[rng.Intn(len(toks))])...)
	case 4: // swap two bytes
		if len(b) > 1 {
			i, j := rng.Intn(len(b)), rng.Intn(len(b))
			b[i], b[j] = b[j], b[i]
		}
	case 5: // truncate
		if len(b) > 0 {
			b = b[:rng.Intn(len(b))]
		}
	}
	return string(b)
}

func emitParse(w *vx.NDWriter, s string) {
	if leaksSeen >= 5 {
		return
	}
	got := parseReal(s)
	ev := map[string]any{"ev": "Parse", "s": vx.BytesOf(s), "ok": got.Ok, "both": got.Both, "leak": got.Leak, "panic": got.Panic != ""}
	if got.Ok {
		ev["e"] = got.E
		ev["gb"] = got.GB
	} else {
		ev["e"] = &vx.QTree{Op: "none"}
		ev["gb"] = [][]int{}
	}
	w.Emit(ev)
}

// record-parse (C09): grammar-derived sentences of any nesting, token-level mutations, arbitrary
// bytes, huge and zero placeholders through the real ParseQuery; Trace_QL recomputes each verdict.
func recordParse(args []string) error {
	fs := flag.NewFlagSet("record-parse", flag.ExitOnError)
	out := fs.String("out", "", "trace file")
	seed := fs.Int64("seed", 1, "seed")
	n := fs.Int("n", 600, "inputs")
	maxDepth := fs.Int("depth", 40, "maximal nesting of generated sentences")
	fs.Parse(args)
	w, err := vx.NewNDWriter(*out)
	if err != nil {
		return err
	}
	baseGoroutines = runtime.NumGoroutine()
	g := &qgen{rng: rand.New(rand.NewSource(*seed))}
	for i := 0; i < *n; i++ {
		var s string
		switch i % 5 {
		case 0, 1: // sentence, optionally with a field list
			t := g.tree(1+g.rng.Intn(5), 1+g.rng.Intn(4), true)
			if i%50 == 10 {
				t = &vx.QTree{Op: []string{"and", "or"}[g.rng.Intn(2)]}
				for k := []int{15, 16, 17, 31, 32, 33, 64, 100}[g.rng.Intn(8)]; k > 0; k-- {
					t.Es = append(t.Es, g.leaf(true))
				}
			}
			s = g.sentence(t, true)
			if g.rng.Intn(3) == 0 {
				s += " ; " + fieldPool[g.rng.Intn(len(fieldPool))]
				for g.rng.Intn(2) == 0 {
					s += ", " + fieldPool[g.rng.Intn(len(fieldPool))]
				}
			}
		case 2: // mutated sentence
			s = g.sentence(g.tree(1+g.rng.Intn(3), 1+g.rng.Intn(3), true), true)
			for k := 1 + g.rng.Intn(3); k > 0; k-- {
				s = mutate(g.rng, s)
			}
		case 3: // arbitrary bytes
			b := make([]byte, g.rng.Intn(24))
			for j := range b {
				if g.rng.Intn(2) == 0 {
					b[j] = "ab=\"$1()&|^,; \n"[g.rng.Intn(15)]
				} else {
					b[j] = byte(g.rng.Intn(256))
				}
			}
			s = string(b)
		case 4: // deep nesting: chains of ^ and ( )
			d := 1 + g.rng.Intn(*maxDepth)
			inner := "a = \"x\""
			for k := 0; k < d; k++ {
				if g.rng.Intn(2) == 0 {
					inner = "^" + inner
				} else {
					inner = "(" + inner + ")"
				}
			}
			s = inner
			if g.rng.Intn(4) == 0 {
				s = mutate(g.rng, s)
			}
		}
		emitParse(w, s)
	}
	// placeholder spellings: leading zeros, boundaries
	for _, ph := range []string{"$1", "$01", "$007", "$08", "$09", "$010", "$0012", "$0100", "$00", "$000", "$2147483647", "$02147483647", "$2147483648", "$2147483649", "$4294967295", "$004294967295", "$4294967296", "$4294967297", "$9223372036854775807", "$9223372036854775808",
		"$18446744073709551615", "$18446744073709551616", "$99999999999999999999", "$0x10", "$1e3", "$+1", "$-1", "$ 1"} {
		emitParse(w, "a = "+ph)
		emitParse(w, "a = "+ph+" & b = \"x\" ; c")
	}
	// every character of the identifier alphabet in first, middle and last position of a column name
	for _, name := range alphabetNames() {
		emitParse(w, name+" = \"v\" ; a, "+name)
	}
	// well-formed multi-byte runes whose low byte is a character of the grammar (U+0141 = 'A' + 0x100, U+2009 thin space ...),
	// after a name, after white space, after placeholder digits, between tokens
	for _, hi := range []rune{0x100, 0x200, 0x2000, 0x4e00, 0x10300} {
		for _, lo := range "azAZ09_ \t\n\r=&|^();,\"$" {
			ru := string(hi + lo)
			emitParse(w, "a"+ru+" = \"x\"")
			emitParse(w, "a = \"x\" "+ru)
			emitParse(w, "a = \"x\" "+ru+"& b = $1")
			emitParse(w, "a = $1"+ru)
			emitParse(w, "a = \"x\" ; b"+ru)
		}
	}
	// very deep nesting: termination / no panic only (beyond what TLC's recursion validates)
	for _, d := range []int{1000, 5000, 20000} {
		s := strings.Repeat("(", d) + "a = \"x\"" + strings.Repeat(")", d)
		got := parseReal(s)
		w.Emit(map[string]any{"ev": "ParseDeep", "depth": d, "ok": got.Ok, "leak": got.Leak, "panic": got.Panic != ""})
		s = strings.Repeat("^", d) + "a = \"x\"" + strings.Repeat(")", d%7)
		got = parseReal(s)
		w.Emit(map[string]any{"ev": "ParseDeep", "depth": d, "ok": got.Ok || d%7 != 0, "leak": got.Leak, "panic": got.Panic != ""})
	}
	return w.Close()
}

const identAlphabet = "abcdefghijklmnopqrstuvwxyzABCDEFGHIJKLMNOPQRSTUVWXYZ0123456789_"

// alphabetNames: for every character of the identifier alphabet a name with it in the middle, one ending in
// it and (letters) one starting with it.
func alphabetNames() []string {
	var out []string
	for _, ch := range identAlphabet {
		c := string(ch)
		out = append(out, "q"+c+"q", "time"+c)
		if (ch >= 'a' && ch <= 'z') || (ch >= 'A' && ch <= 'Z') {
			out = append(out, c+"one", c)
		}
	}
	return out
}

type fmtLine struct {
	Tag string    `json:"tag"`
	E   *vx.QTree `json:"e"`
	GB  [][]int   `json:"gb"`
}

// roundTrip formats, parses, formats, parses, formats with the real code.
func roundTrip(w *vx.NDWriter, t *vx.QTree, gb [][]int) {
	q := &proto.Query{Expr: t.ToProto()}
	for _, f := range gb {
		q.GroupBy = append(q.GroupBy, vx.StringOf(f))
	}
	ev := map[string]any{"ev": "RoundTrip", "t": t, "gb": gb, "panic": false}
	none := &vx.QTree{Op: "none"}
	var s1, s2, s3 string
	var p1, p2 parseOutcome
	if p := vx.Safely(func() {
		s1 = queryparser.QueryToString(q)
		p1 = parseReal(s1)
		if p1.Ok {
			q1 := &proto.Query{Expr: p1.E.ToProto()}
			for _, f := range p1.GB {
				q1.GroupBy = append(q1.GroupBy, vx.StringOf(f))
			}
			s2 = queryparser.QueryToString(q1)
			p2 = parseReal(s2)
			if p2.Ok {
				q2 := &proto.Query{Expr: p2.E.ToProto()}
				for _, f := range p2.GB {
					q2.GroupBy = append(q2.GroupBy, vx.StringOf(f))
				}
				s3 = queryparser.QueryToString(q2)
			}
		}
	}); p != nil {
		ev["panic"] = true
	}
	ev["s1"], ev["s2"], ev["s3"] = vx.BytesOf(s1), vx.BytesOf(s2), vx.BytesOf(s3)
	ev["ok1"], ev["ok2"] = p1.Ok, p2.Ok
	ev["t1"], ev["t2"] = none, none
	ev["gb1"] = [][]int{}
	if p1.Ok {
		ev["t1"] = p1.E
		ev["gb1"] = p1.GB
	}
	if p2.Ok {
		ev["t2"] = p2.E
	}
	w.Emit(ev)
}

// record-roundtrip (C10): TLC-enumerated trees (-in) and random deep/wide trees with arbitrary value
// bytes through QueryToString / ParseQuery twice.
func recordRoundTrip(args []string) error {
	fs := flag.NewFlagSet("record-roundtrip", flag.ExitOnError)
	out := fs.String("out", "", "trace file")
	in := fs.String("in", "", "ndjson of trees from MC_Fmt (optional)")
	seed := fs.Int64("seed", 1, "seed")
	n := fs.Int("n", 300, "random trees")
	fs.Parse(args)
	w, err := vx.NewNDWriter(*out)
	if err != nil {
		return err
	}
	baseGoroutines = runtime.NumGoroutine()
	if *in != "" {
		err := vx.ReadLines(*in, func(line []byte) error {
			var ln fmtLine
			if err := json.Unmarshal(line, &ln); err != nil {
				return err
			}
			if ln.Tag == "tree" {
				if ln.GB == nil {
					ln.GB = [][]int{}
				}
				roundTrip(w, ln.E, ln.GB)
			}
			return nil
		})
		if err != nil {
			return err
		}
	}
	g := &qgen{rng: rand.New(rand.NewSource(*seed))}
	for i := 0; i < *n; i++ {
		t := g.tree(1+g.rng.Intn(7), 1+g.rng.Intn(5), true)
		if i%75 == 7 {
			// a very wide flat node (several KiB of text), followed by ordinary trees
			t = &vx.QTree{Op: []string{"and", "or"}[g.rng.Intn(2)]}
			for k := 270 + g.rng.Intn(60); k > 0; k-- {
				t.Es = append(t.Es, g.leaf(true))
			}
		}
		if i%75 == 37 {
			// a long exclusion list: one positive comparison and hundreds of negated ones
			t = &vx.QTree{Op: "and", Es: []*vx.QTree{g.leaf(false)}}
			for k := 140 + g.rng.Intn(60); k > 0; k-- {
				t.Es = append(t.Es, &vx.QTree{Op: "not", E: g.leaf(false)})
			}
		}
		gb := [][]int{}
		for g.rng.Intn(3) == 0 && len(gb) < 6 {
			gb = append(gb, vx.BytesOf(fieldPool[g.rng.Intn(len(fieldPool))]))
		}
		roundTrip(w, t, gb)
	}
	// identifier alphabet: every character in first / middle / last position, as comparison column and in the field list
	for _, name := range alphabetNames() {
		nb := vx.BytesOf(name)
		roundTrip(w, &vx.QTree{Op: "eq", Col: nb, Val: vx.BytesOf("v")}, [][]int{vx.BytesOf("a"), nb, vx.BytesOf("b")})
	}
	// every byte value inside a string literal, alone and doubled
	for b := 0; b < 256; b++ {
		roundTrip(w, &vx.QTree{Op: "eq", Col: vx.BytesOf("a"), Val: []int{'x', b, 'y'}}, [][]int{})
		roundTrip(w, &vx.QTree{Op: "eq", Col: vx.BytesOf("a"), Val: []int{'x', b, b, 'y'}}, [][]int{})
		roundTrip(w, &vx.QTree{Op: "eq", Col: vx.BytesOf("a"), Val: []int{b, b}}, [][]int{})
	}
	return w.Close()
}
