package main

import (
	"flag"
	"math/rand"
	"os"
	"sync"
	"time"

	"github.com/akrennmair/updog/zverif/internal/vx"
)

func init() { commands["record-conc-write"] = recordConcWrite }

// record-conc-write (C18): 2..32 goroutines call AddRow on one writer at once; every row carries a
// unique tag.  The returned (id,row) pairs are logged as one ConcAddRows event (the spec requires
// the ids to be exactly the next n ids and defines the index as the insertion in id order), then
// the flushed index is probed: count(tag=t), count(tag=t AND col=val) for every value of the row.
func recordConcWrite(args []string) error {
	fs := flag.NewFlagSet("record-conc-write", flag.ExitOnError)
	out := fs.String("out", "", "trace file")
	seed := fs.Int64("seed", 1, "seed")
	totals := fs.String("totals", "40,999,1001,2003", "row totals")
	cold := fs.Int("cold", 40, "cold-start trials (small totals, all goroutines released together)")
	fs.Parse(args)
	w, err := vx.NewNDWriter(*out)
	if err != nil {
		return err
	}
	dir := vx.Scratch("recconcw")
	defer os.RemoveAll(dir)
	r := &libRec{out: w, rng: rand.New(rand.NewSource(*seed)), dir: dir, hashes: map[string]int{}, paths: map[int]string{}}
	var tot []int
	for _, s := range splitInts(*totals) {
		tot = append(tot, s)
	}
	type cfg struct {
		i, n int
		kind string
		cold bool // many goroutines released together on a fresh writer: the first rows introduce the columns at the same moment
	}
	var cfgs []cfg
	for t := 0; t < *cold; t++ {
		cfgs = append(cfgs, cfg{t, 24 + 8*(t%4), []string{"mem", "big"}[t%2], true})
	}
	for i, n := range tot {
		for _, kind := range []string{"mem", "big"} {
			cfgs = append(cfgs, cfg{i, n, kind, false})
		}
	}
	for _, c := range cfgs {
		{
			i, n, kind := c.i, c.n, c.kind
			rng := r.rng
			// values: ranks 1..8 for the shared columns, the tag column uses n distinct values
			vals := vx.PickSorted(rng, nil, n+20, func(i int) string { return "t" + padInt(i) })
			// columns 4.. : only the very wide rows of the uneven tail carry them
			wide := 3000
			if c.cold {
				wide = 0
			}
			cols := []string{"a", "b", "tag"}
			for k := 0; k < wide; k++ {
				cols = append(cols, "w"+padInt(k))
			}
			d := vx.NewDict(cols, vals)
			r.reset(d)
			wr, ok := r.newWriter(1, kind)
			if !ok {
				continue
			}
			ng := []int{2, 4, 8, 16, 32}[(i+rng.Intn(5))%5]
			if c.cold {
				ng = []int{8, 16, 24}[i%3]
			}
			start := make(chan struct{})
			reuseMaps := (c.i/2+c.i)%2 == 1
			rows := make([]vx.Row, n)
			for k := range rows {
				row := vx.Row{{1, 1 + rng.Intn(4)}, {3, k + 1}}
				if rng.Intn(3) > 0 {
					row = append(row, [2]int{2, 1 + rng.Intn(6)})
				}
				rows[k] = row
			}
			type item struct {
				id  int
				row vx.Row
			}
			res := make([][]item, ng)
			var wg sync.WaitGroup
			for g := 0; g < ng; g++ {
				wg.Add(1)
				go func(g int) {
					defer wg.Done()
					<-start
					// every other configuration: each goroutine fills one map of its own again and again (the map is
					// the caller's; AddRow must be done with it when it returns)
					own := map[string]string{}
					for k := g; k < n; k += ng {
						m := d.RowMap(rows[k])
						if reuseMaps {
							for key := range own {
								delete(own, key)
							}
							for key, v := range m {
								own[key] = v
							}
							m = own
						}
						id, err := wr.AddRow(m)
						if err != nil {
							id = 1 << 30
						}
						res[g] = append(res[g], item{int(id), rows[k]})
					}
					for key := range own {
						own[key] = "overwritten after AddRow returned"
					}
				}(g)
			}
			close(start)
			if !waitOr(&wg, 120*time.Second) {
				// concurrent AddRow calls that never return: the trace ends with an event no action matches
				w.Emit(map[string]any{"ev": "Hang", "what": "concurrent AddRow calls did not return within 120 s", "goroutines": ng, "kind": kind})
				return w.Close()
			}
			// uneven tail: a very wide row enters AddRow first, a narrow one a moment later and overtakes it wherever
			// the writer works outside its lock; the last rows decide what the row counter ends up as
			tail := make([]item, 0, 6)
			var tmu sync.Mutex
			for round := 0; round < 3 && !c.cold; round++ {
				wideRow := vx.Row{{1, 1 + rng.Intn(4)}, {3, n + 2*round + 1}}
				for k := 0; k < wide; k++ {
					wideRow = append(wideRow, [2]int{4 + k, 1})
				}
				narrow := vx.Row{{3, n + 2*round + 2}}
				wm, nm := d.RowMap(wideRow), d.RowMap(narrow)
				started := make(chan struct{})
				var tw sync.WaitGroup
				tw.Add(2)
				add := func(m map[string]string, row vx.Row) {
					defer tw.Done()
					id, err := wr.AddRow(m)
					if err != nil {
						id = 1 << 30
					}
					tmu.Lock()
					tail = append(tail, item{int(id), row})
					tmu.Unlock()
				}
				go func() { close(started); add(wm, wideRow) }()
				go func() {
					<-started
					for spin := time.Now(); time.Since(spin) < time.Duration(20*(round+1))*time.Microsecond; {
					}
					add(nm, narrow)
				}()
				tw.Wait()
			}
			res = append(res, tail)
			items := []any{}
			for _, rs := range res {
				for _, it := range rs {
					items = append(items, []any{it.id, it.row})
				}
			}
			w.Emit(map[string]any{"ev": "ConcAddRows", "p": 1, "items": items, "goroutines": ng})
			if !r.flush(1, wr) {
				continue
			}
			idx := r.open(1, modes[i%2], "none", 0)
			if idx == nil {
				continue
			}
			r.schema(1, idx)
			taut := &vx.Expr{Op: "or", Es: []*vx.Expr{{Op: "eq", Col: 1, Val: 1}, {Op: "not", E: &vx.Expr{Op: "eq", Col: 1, Val: 1}}}}
			r.exec(1, idx, vx.Query{E: taut})
			r.exec(1, idx, vx.Query{E: taut, GB: []int{1}})
			step := 1
			if n > 150 {
				step = n / 150
			}
			for k := 0; k < n; k += step {
				tag := &vx.Expr{Op: "eq", Col: 3, Val: k + 1}
				r.exec(1, idx, vx.Query{E: tag})
				for _, p := range rows[k] {
					if p[0] != 3 {
						r.exec(1, idx, vx.Query{E: &vx.Expr{Op: "and", Es: []*vx.Expr{tag, {Op: "eq", Col: p[0], Val: p[1]}}}})
					}
				}
			}
			for t := n + 1; t <= n+6; t++ {
				r.exec(1, idx, vx.Query{E: &vx.Expr{Op: "eq", Col: 3, Val: t}})
			}
			if !c.cold {
				r.exec(1, idx, vx.Query{E: &vx.Expr{Op: "not", E: &vx.Expr{Op: "eq", Col: 4, Val: 1}}})
			}
			r.exec(1, idx, vx.Query{E: &vx.Expr{Op: "not", E: &vx.Expr{Op: "eq", Col: 3, Val: n + 6}}})
			r.close(1, idx)
		}
	}
	return w.Close()
}

func splitInts(s string) []int {
	var out []int
	cur, have := 0, false
	for _, ch := range s + "," {
		if ch >= '0' && ch <= '9' {
			cur = cur*10 + int(ch-'0')
			have = true
		} else if have {
			out = append(out, cur)
			cur, have = 0, false
		}
	}
	return out
}

func padInt(i int) string {
	s := "0000000"
	d := []byte(s)
	for p := len(d) - 1; p >= 0 && i > 0; p-- {
		d[p] = byte('0' + i%10)
		i /= 10
	}
	return string(d)
}
