package main

import (
	"context"
	"database/sql"
	"encoding/json"
	"flag"
	"fmt"
	"math/rand"
	"os"
	"strings"

	"github.com/akrennmair/updog/zverif/internal/vx"
)

func init() { commands["replay-dsn"] = replayDSN }

type dsnLine struct {
	Tag string `json:"tag"`
	DSN struct {
		Scheme   string `json:"scheme"`
		Preload  string `json:"preload"`
		Lrucache string `json:"lrucache"`
		Size     string `json:"size"`
	} `json:"dsn"`
	Outcome string `json:"outcome"` // ok | either
}

// replay-dsn (C12, driver surface): every abstract data source name of the specification is
// concretised and used through database/sql: a usable DSN answers like the library (whatever
// options it selects), an unusable one fails with an error at first use; Exec is rejected;
// Begin / Commit / Rollback are accepted and change no answer.
func replayDSN(args []string) error {
	fs := flag.NewFlagSet("replay-dsn", flag.ExitOnError)
	in := fs.String("in", "", "ndjson from Gen_Stmt")
	seed := fs.Int64("seed", 1, "seed")
	fs.Parse(args)
	rng := rand.New(rand.NewSource(*seed))
	dict := identDict(rng, 4)
	dir := vx.Scratch("replaydsn")
	defer os.RemoveAll(dir)
	rows := []vx.Row{{{2, 1}, {3, 1}}, {{2, 1}, {3, 2}}, {{2, 2}}, {}}
	path, err := buildIndex(dict, dir, "dsn.updog", "mem", rows)
	if err != nil {
		return err
	}
	rep := &vx.Report{}
	q := vx.Query{E: &vx.Expr{Op: "eq", Col: 2, Val: 1}, GB: []int{3}}
	text := renderQuery(dict, q)
	want := expectRows(dict, vx.Res{Ok: true, Count: 2, Groups: []vx.Group{{Cols: []int{3}, Vals: []int{1}, Count: 1}, {Cols: []int{3}, Vals: []int{2}, Count: 1}}}, q.GB)
	val := map[string]string{"true": "true", "false": "false", "junk": "yes"}
	size := map[string]string{"zero": "0", "num": "65536", "junk": "12k", "neg": "-1"}
	err = vx.ReadLines(*in, func(line []byte) error {
		var ln dsnLine
		if err := json.Unmarshal(line, &ln); err != nil {
			return err
		}
		if ln.Tag != "dsn" {
			return nil
		}
		rep.Behaviours++
		var opts []string
		if v, ok := val[ln.DSN.Preload]; ok {
			opts = append(opts, "preload="+v)
		}
		if v, ok := val[ln.DSN.Lrucache]; ok {
			opts = append(opts, "lrucache="+v)
		}
		if v, ok := size[ln.DSN.Size]; ok {
			opts = append(opts, "lrucachesize="+v)
		}
		rng.Shuffle(len(opts), func(i, j int) { opts[i], opts[j] = opts[j], opts[i] })
		dsn := map[string]string{"file": "file:", "other": "ftp:"}[ln.DSN.Scheme] + path
		if len(opts) > 0 {
			dsn += "?" + strings.Join(opts, "&")
		}
		db, oerr := sql.Open("updog", dsn)
		mustWork := ln.Outcome == "ok"
		if oerr != nil {
			if mustWork {
				rep.Mismatch(map[string]any{"kind": "dsn-open", "dsn": dsn, "err": oerr.Error()})
			}
			return nil
		}
		defer db.Close()
		rep.Steps++
		got := safeQuery(db, text)
		if got.Panic != "" || (mustWork && got.Err) || (!got.Err && !sameRows(got, want)) {
			rep.Mismatch(map[string]any{"kind": "dsn-query", "dsn": dsn, "outcome": ln.Outcome, "got": got})
			return nil
		}
		if got.Err {
			return nil
		}
		// Exec is rejected, never a panic
		var eerr error
		if p := vx.Safely(func() { _, eerr = db.Exec(text) }); p != nil || eerr == nil {
			rep.Mismatch(map[string]any{"kind": "dsn-exec-accepted", "dsn": dsn, "panic": fmt.Sprint(p)})
		}
		// transactions are no-ops: same rows inside, after commit and after rollback
		for _, finish := range []string{"commit", "rollback"} {
			rep.Steps++
			var txRows sqlRows
			var terr error
			if p := vx.Safely(func() {
				tx, err := db.BeginTx(context.Background(), nil)
				if err != nil {
					terr = err
					return
				}
				r, qerr := tx.Query(text)
				txRows = collect(r, qerr)
				if finish == "commit" {
					terr = tx.Commit()
				} else {
					terr = tx.Rollback()
				}
			}); p != nil || terr != nil || !sameRows(txRows, want) || !sameRows(safeQuery(db, text), want) {
				rep.Mismatch(map[string]any{"kind": "dsn-tx", "dsn": dsn, "finish": finish, "err": fmt.Sprint(terr), "panic": fmt.Sprint(p), "rows": txRows})
			}
		}
		if len(rep.Samples) < 3 && rep.Behaviours%37 == 1 {
			rep.Samples = append(rep.Samples, map[string]any{"dsn": dsn, "outcome": ln.Outcome})
		}
		return nil
	})
	if err != nil {
		return err
	}
	rep.Print()
	return nil
}
