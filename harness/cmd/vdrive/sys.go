package main

import (
	"bytes"
	"context"
	"encoding/json"
	"flag"
	"fmt"
	"io"
	"math/rand"
	"net"
	"net/http"
	"os"
	"os/exec"
	"path/filepath"
	"regexp"
	"strconv"
	"strings"
	"sync"
	"time"

	"github.com/akrennmair/updog/zverif/internal/vx"
)

func init() { commands["replay-sys"] = replaySys }

// One behaviour of MC_Sys: a history of command lines with the terminal contents (exit status and
// structured standard output) the specification UpdogSys prescribes after each of them.
type sysQuery struct {
	Kind string   `json:"kind"`
	E    *vx.Expr `json:"e"`
	GB   []int    `json:"gb"`
}

type sysStep struct {
	Cmd     string     `json:"cmd"`
	Rows    [][]int    `json:"-"`
	RawRows []any      `json:"rows"`
	Defect  bool       `json:"defect"`
	Big     bool       `json:"big"`
	Post    string     `json:"post"`
	Full    bool       `json:"full"`
	Cache   bool       `json:"cache"`
	Preload bool       `json:"preload"`
	Via     string     `json:"via"`
	Qs      []sysQuery `json:"qs"`
	T       sysTerm    `json:"t"`
}

// sysTerm: the terminal contents; out is a list (blocks, tables, records) or, for metrics, a record.
type sysTerm struct {
	Exit   int
	Out    []json.RawMessage
	OutRaw json.RawMessage
}

func (t *sysTerm) UnmarshalJSON(b []byte) error {
	var raw struct {
		Exit int             `json:"exit"`
		Out  json.RawMessage `json:"out"`
	}
	if err := json.Unmarshal(b, &raw); err != nil {
		return err
	}
	t.Exit, t.OutRaw = raw.Exit, raw.Out
	if len(raw.Out) > 0 && raw.Out[0] == '[' {
		return json.Unmarshal(raw.Out, &t.Out)
	}
	return nil
}

// scrape reads the server's /metrics page: metric name (without labels) -> value.
func scrape(addr string) (int, map[string]float64) {
	vals := map[string]float64{}
	c := &http.Client{Timeout: 10 * time.Second}
	resp, err := c.Get("http://" + addr + "/metrics")
	if err != nil {
		return 1, vals
	}
	defer resp.Body.Close()
	body, _ := io.ReadAll(resp.Body)
	if resp.StatusCode != 200 {
		return 1, vals
	}
	for _, ln := range strings.Split(string(body), "\n") {
		if strings.HasPrefix(ln, "#") || !strings.HasPrefix(ln, "updog_") {
			continue
		}
		f := strings.Fields(ln)
		if len(f) == 2 && !strings.Contains(f[0], "{") {
			if v, err := strconv.ParseFloat(f[1], 64); err == nil {
				vals[f[0]] = v
			}
		}
	}
	return 0, vals
}

type sysBeh struct {
	Tag   string    `json:"tag"`
	Steps []sysStep `json:"steps"`
}

// concrete names: CSV header fields that normalise to the column names (upper case, space, non-ASCII);
// rank 3 is a column no CSV has.  Values avoid white space and '|' so that the tables stay parseable.
type sysDict struct {
	hdr  []string
	cols []string
	vals []string
}

var sysDicts = []sysDict{
	{[]string{"Ab", "b C"}, []string{"ab", "b_c", "zz"}, []string{"", "X1", "q\"t", "\xc3\xa9"}},
	{[]string{"a", "B\xc3\x89"}, []string{"a", "b_", "c"}, []string{"0", "00", "a,b", "b"}},
	{[]string{"c-", "C-.d"}, []string{"c_", "c__d", "d"}, []string{"(", "=", "^x", "~"}},
}

func (d sysDict) text(t *vx.Expr, top bool) string {
	switch t.Op {
	case "eq":
		return d.cols[t.Col-1] + " = \"" + strings.ReplaceAll(d.vals[t.Val-1], "\"", "\"\"") + "\""
	case "not":
		return "^ " + d.text(t.E, false)
	}
	var parts []string
	for _, e := range t.Es {
		parts = append(parts, d.text(e, false))
	}
	s := strings.Join(parts, map[string]string{"and": " & ", "or": " | "}[t.Op])
	if !top || len(t.Es) == 1 {
		s = "(" + s + ")"
	}
	return s
}

func (d sysDict) query(q sysQuery, i int) string {
	if q.Kind == "syntax" {
		return []string{"ab = ", "(a = \"1\"", "a == \"1\"", "a = \"1\" )", "& a = \"1\""}[i%5]
	}
	s := d.text(q.E, true)
	if len(q.GB) > 0 {
		var g []string
		for _, c := range q.GB {
			g = append(g, d.cols[c-1])
		}
		s += " ; " + strings.Join(g, ", ")
	}
	return s
}

type sysRun struct {
	bin  string
	dir  string
	path string
	d    sysDict
	srv  *exec.Cmd
	addr string
	dbg  string
	done chan error
	log  []string
}

func (r *sysRun) run(timeout time.Duration, args ...string) (int, string, string) {
	ctx, cancel := context.WithTimeout(context.Background(), timeout)
	defer cancel()
	cmd := exec.CommandContext(ctx, r.bin, args...)
	var so, se bytes.Buffer
	cmd.Stdout, cmd.Stderr = &so, &se
	cmd.Dir = r.dir
	err := cmd.Run()
	r.log = append(r.log, strings.Join(args, " "))
	if ctx.Err() != nil {
		return -2, so.String(), se.String()
	}
	if err != nil {
		if ee, ok := err.(*exec.ExitError); ok {
			return ee.ExitCode(), so.String(), se.String()
		}
		return -3, so.String(), err.Error()
	}
	return 0, so.String(), se.String()
}

// runOrBlock: the specification's status 2 means "waits for the server's file lock": the command must
// still be running after blockProbe and is then killed; any other command gets a generous time limit.
const blockProbe = 4 * time.Second

func (r *sysRun) runOrBlock(want int, args ...string) (int, string, string) {
	if want != 2 {
		return r.run(90*time.Second, args...)
	}
	code, so, se := r.run(blockProbe, args...)
	if code == -2 {
		code = 2
	}
	return code, so, se
}

func (r *sysRun) stopServer() {
	if r.srv != nil {
		r.srv.Process.Kill()
		<-r.done
		r.srv = nil
	}
}

// startServer returns the exit status the command line shows: 0 = serving, 1 = gave up.
func (r *sysRun) startServer(cache, preload bool) (int, string) {
	r.addr, r.dbg = freePort(), freePort()
	args := []string{"server", "-l", r.addr, "-d", r.dbg, "-f", r.path, fmt.Sprintf("--enable-cache=%v", cache)}
	if preload {
		args = append(args, "-p")
	}
	cmd := exec.Command(r.bin, args...)
	var se bytes.Buffer
	cmd.Stdout, cmd.Stderr = &se, &se
	cmd.Dir = r.dir
	if err := cmd.Start(); err != nil {
		return -3, err.Error()
	}
	r.log = append(r.log, strings.Join(args, " "))
	done := make(chan error, 1)
	go func() { done <- cmd.Wait() }()
	deadline := time.Now().Add(15 * time.Second)
	for time.Now().Before(deadline) {
		select {
		case <-done:
			return cmd.ProcessState.ExitCode(), se.String()
		default:
		}
		if probeListening(r.addr) {
			r.srv, r.done = cmd, done
			return 0, ""
		}
		time.Sleep(30 * time.Millisecond)
	}
	cmd.Process.Kill()
	<-done
	return -2, "server neither serving nor exited: " + se.String()
}

var reClientQ = regexp.MustCompile(`^Query (\d+):$`)
var reClientT = regexp.MustCompile(`^\tTotal count: (\d+)$`)
var reClientG = regexp.MustCompile(`^\tGroup (.*): (\d+)$`)

type sysGroup struct {
	Cols  []int `json:"cols"`
	Vals  []int `json:"vals"`
	Count int   `json:"count"`
}
type sysBlock struct {
	ID     int        `json:"id"`
	Count  int        `json:"count"`
	Groups []sysGroup `json:"groups"`
}
type sysTable struct {
	Header []int   `json:"header"`
	Rows   [][]int `json:"rows"`
}

// expected renderings (the specification speaks in ranks; the terminal shows strings)
func (d sysDict) wantClient(out []json.RawMessage) (string, error) {
	var b strings.Builder
	for i, raw := range out {
		var blk sysBlock
		if err := json.Unmarshal(raw, &blk); err != nil {
			return "", err
		}
		if i > 0 {
			b.WriteString("\n")
		}
		fmt.Fprintf(&b, "Query %d:\n\tTotal count: %d\n", blk.ID, blk.Count)
		for _, g := range blk.Groups {
			var fs []string
			for k := range g.Cols {
				fs = append(fs, d.cols[g.Cols[k]-1]+"="+strconv.Quote(d.vals[g.Vals[k]-1]))
			}
			fmt.Fprintf(&b, "\tGroup %s: %d\n", strings.Join(fs, ","), g.Count)
		}
	}
	return b.String(), nil
}

// parseTables reads `updog driver` output: per query a caption and an ASCII table; cells are trimmed.
func parseTables(s string) (tables [][][]string, err error) {
	var cur [][]string
	open := false
	for _, ln := range strings.Split(s, "\n") {
		switch {
		case strings.HasPrefix(ln, "Result for query "):
			if open {
				tables = append(tables, cur)
			}
			cur, open = nil, true
		case strings.HasPrefix(ln, "+") || ln == "":
		case strings.HasPrefix(ln, "|") && open:
			cells := strings.Split(strings.Trim(ln, "|"), "|")
			for i := range cells {
				cells[i] = strings.TrimSpace(cells[i])
			}
			cur = append(cur, cells)
		default:
			return nil, fmt.Errorf("unexpected line %q", ln)
		}
	}
	if open {
		tables = append(tables, cur)
	}
	return tables, nil
}

func (d sysDict) wantTables(out []json.RawMessage) ([][][]string, error) {
	var res [][][]string
	for _, raw := range out {
		var t sysTable
		if err := json.Unmarshal(raw, &t); err != nil {
			return nil, err
		}
		var tab [][]string
		var hdr []string
		for _, c := range t.Header {
			hdr = append(hdr, strings.ToUpper(strings.TrimSpace(strings.ReplaceAll(d.cols[c-1], "_", " "))))
		}
		tab = append(tab, append(hdr, "COUNT"))
		for _, r := range t.Rows {
			var row []string
			for k, v := range r {
				if k < len(r)-1 {
					row = append(row, d.vals[v-1])
				} else {
					row = append(row, strconv.Itoa(v))
				}
			}
			tab = append(tab, row)
		}
		res = append(res, tab)
	}
	return res, nil
}

// schema table: first line is the caption row, then one line per record, fields separated by runs of blanks
func parseSchemaTable(s string) [][]string {
	var res [][]string
	for i, ln := range strings.Split(strings.TrimRight(s, "\n"), "\n") {
		if i == 0 || strings.TrimSpace(ln) == "" {
			continue
		}
		f := strings.Fields(ln)
		if len(f) == 1 {
			f = append(f, "")
		}
		res = append(res, f)
	}
	return res
}

func (d sysDict) wantSchema(out []json.RawMessage, full bool) ([][]string, error) {
	var res [][]string
	for _, raw := range out {
		var p []int
		if err := json.Unmarshal(raw, &p); err != nil {
			return nil, err
		}
		if full {
			res = append(res, []string{d.cols[p[0]-1], d.vals[p[1]-1]})
		} else {
			res = append(res, []string{d.cols[p[0]-1], strconv.Itoa(p[1])})
		}
	}
	return res, nil
}

func probeListening(addr string) bool {
	c, err := net.DialTimeout("tcp", addr, time.Second)
	if err != nil {
		return false
	}
	c.Close()
	return true
}

func replaySys(args []string) error {
	fs := flag.NewFlagSet("replay-sys", flag.ExitOnError)
	in := fs.String("in", "", "ndjson from MC_Sys (Gen_Sys.cfg)")
	bin := fs.String("updog", "", "updog binary")
	seed := fs.Int64("seed", 1, "seed")
	par := fs.Int("par", 8, "behaviours in flight")
	fs.Parse(args)
	rep := &vx.Report{Notes: map[string]any{}}
	if abs, err := filepath.Abs(*bin); err == nil {
		*bin = abs
	}
	var mu sync.Mutex
	var wg sync.WaitGroup
	sem := make(chan struct{}, *par)
	root := vx.Scratch("replaysys")
	defer os.RemoveAll(root)
	n := 0
	cmds := map[string]int{}
	err := vx.ReadLines(*in, func(line []byte) error {
		var b sysBeh
		if err := json.Unmarshal(line, &b); err != nil {
			return err
		}
		if b.Tag != "sys" {
			return nil
		}
		n++
		idx := n
		wg.Add(1)
		sem <- struct{}{}
		go func() {
			defer wg.Done()
			defer func() { <-sem }()
			rng := rand.New(rand.NewSource(*seed*7919 + int64(idx)))
			mm, steps, kinds := runSysBehaviour(*bin, filepath.Join(root, fmt.Sprint("b", idx)), sysDicts[rng.Intn(len(sysDicts))], b, rng)
			mu.Lock()
			defer mu.Unlock()
			rep.Behaviours++
			rep.Steps += steps
			for k, v := range kinds {
				cmds[k] += v
			}
			if mm != nil {
				rep.Mismatch(mm)
			} else if len(rep.Samples) < 2 && idx%37 == 1 {
				rep.Samples = append(rep.Samples, b)
			}
		}()
		return nil
	})
	wg.Wait()
	if err != nil {
		return err
	}
	rep.Notes["commands_succeeded"] = cmds
	rep.Print()
	return nil
}

func runSysBehaviour(bin, dir string, d sysDict, b sysBeh, rng *rand.Rand) (mismatch map[string]any, steps int, okKinds map[string]int) {
	os.MkdirAll(dir, 0o755)
	defer os.RemoveAll(dir)
	r := &sysRun{bin: bin, dir: dir, path: filepath.Join(dir, "out.updog"), d: d}
	defer r.stopServer()
	okKinds = map[string]int{}
	fail := func(i int, why string, extra map[string]any) map[string]any {
		m := map[string]any{"kind": "sys-" + b.Steps[i].Cmd, "why": why, "step": i + 1, "history": r.log, "dict": d.cols}
		for k, v := range extra {
			m[k] = v
		}
		return m
	}
	for i, st := range b.Steps {
		steps++
		want := st.T.Exit
		switch st.Cmd {
		case "create":
			csvPath := filepath.Join(dir, fmt.Sprintf("in%d.csv", i))
			var sb strings.Builder
			sb.WriteString(csvQuote(d.hdr[0]) + "," + csvQuote(d.hdr[1]) + "\n")
			for ri, raw := range st.RawRows {
				row := raw.([]any) // a function over 1..2 prints as a JSON list
				var f []string
				for _, v := range row {
					f = append(f, csvQuote(d.vals[int(v.(float64))-1]))
				}
				ln := strings.Join(f, ",")
				if st.Defect && ri == 0 {
					if rng.Intn(2) == 0 {
						ln += ",extra"
					} else {
						ln = "x\"y," + f[1]
					}
				}
				sb.WriteString(ln + "\n")
			}
			os.WriteFile(csvPath, []byte(sb.String()), 0o644)
			before := vx.FileHash(r.path)
			_, preErr := os.Stat(r.path)
			argv := []string{"create", "-o", r.path}
			if st.Big {
				argv = append(argv, "--big")
			}
			code, _, se := r.run(60*time.Second, append(argv, csvPath)...)
			if code != want {
				return fail(i, fmt.Sprintf("exit status %d, specification says %d", code, want), map[string]any{"stderr": tail(se, 400), "csv": sb.String()}), steps, okKinds
			}
			if preErr == nil && vx.FileHash(r.path) != before {
				return fail(i, "an existing output changed", nil), steps, okKinds
			}
			_, postErr := os.Stat(r.path)
			switch st.Post {
			case "index":
				if postErr != nil {
					return fail(i, "no output file after a successful create", nil), steps, okKinds
				}
			case "absent": // a failed --big run may leave a junk file behind: follow the specification's choice
				if preErr != nil && postErr == nil {
					if !st.Big {
						return fail(i, "failed create left a file behind", nil), steps, okKinds
					}
					os.Remove(r.path)
				}
			case "other":
				if preErr != nil && postErr != nil {
					os.WriteFile(r.path, []byte("left behind"), 0o644)
				}
			}
		case "rm":
			os.Remove(r.path)
		case "junk":
			os.WriteFile(r.path, []byte("this is not an index\n"), 0o644)
		case "schema":
			argv := []string{"schema", "-f", r.path}
			if st.Full {
				argv = append(argv, "--full")
			}
			before := vx.FileHash(r.path)
			code, so, se := r.runOrBlock(want, argv...)
			if code != want {
				return fail(i, fmt.Sprintf("exit status %d, specification says %d", code, want), map[string]any{"stderr": tail(se, 400)}), steps, okKinds
			}
			if vx.FileHash(r.path) != before {
				return fail(i, "schema changed the file", nil), steps, okKinds
			}
			if want == 0 {
				exp, err := d.wantSchema(st.T.Out, st.Full)
				if err != nil {
					return fail(i, "harness: "+err.Error(), nil), steps, okKinds
				}
				if got := parseSchemaTable(so); fmt.Sprint(got) != fmt.Sprint(exp) {
					return fail(i, "schema output differs", map[string]any{"got": got, "want": exp, "stdout": so}), steps, okKinds
				}
			}
		case "server":
			code, msg := r.startServer(st.Cache, st.Preload)
			if code != want {
				return fail(i, fmt.Sprintf("server start: status %d, specification says %d", code, want), map[string]any{"stderr": tail(msg, 400)}), steps, okKinds
			}
		case "stop":
			r.stopServer()
		case "metrics":
			code, vals := 1, map[string]float64{}
			if r.srv != nil {
				code, vals = scrape(r.dbg)
			}
			r.log = append(r.log, "GET /metrics")
			if code != want {
				return fail(i, fmt.Sprintf("metrics: status %d, specification says %d", code, want), nil), steps, okKinds
			}
			if want == 0 {
				var exp struct {
					Execs int  `json:"execs"`
					Cache bool `json:"cache"`
				}
				if err := json.Unmarshal(st.T.OutRaw, &exp); err != nil {
					return fail(i, "harness: "+err.Error(), nil), steps, okKinds
				}
				_, hasCache := vals["updog_server_cache_get_calls_total"]
				execs, hasExecs := vals["updog_server_query_exec_duration_seconds_count"]
				why := ""
				switch {
				case !hasExecs || int(execs) != exp.Execs:
					why = fmt.Sprintf("Execute count %v, specification says %d", execs, exp.Execs)
				case hasCache != exp.Cache:
					why = fmt.Sprintf("cache counters present=%v, cache enabled=%v", hasCache, exp.Cache)
				case hasCache && vals["updog_server_cache_get_calls_total"] != vals["updog_server_cache_hits_total"]+vals["updog_server_cache_misses_total"]:
					why = "cache get calls != hits + misses"
				case hasCache && vals["updog_server_cache_put_calls_total"] > vals["updog_server_cache_misses_total"]:
					why = "more cache puts than misses"
				}
				if why != "" {
					return fail(i, why, map[string]any{"metrics": vals}), steps, okKinds
				}
			}
		case "client", "driver":
			var qs []string
			for k, q := range st.Qs {
				qs = append(qs, d.query(q, i+k))
			}
			addr := r.addr
			if r.srv == nil {
				addr = freePort() // nothing listens there
			}
			var argv []string
			if st.Cmd == "client" {
				argv = append([]string{"client", "-c", addr}, qs...)
			} else if st.Via == "file" {
				argv = append([]string{"driver", "-d", "file:" + r.path}, qs...)
			} else {
				argv = append([]string{"driver", "-d", "grpc://" + addr}, qs...)
			}
			before := vx.FileHash(r.path)
			code, so, se := r.runOrBlock(want, argv...)
			if code != want {
				return fail(i, fmt.Sprintf("exit status %d, specification says %d", code, want), map[string]any{"stderr": tail(se, 400), "stdout": tail(so, 400)}), steps, okKinds
			}
			if vx.FileHash(r.path) != before {
				return fail(i, st.Cmd+" changed the file", nil), steps, okKinds
			}
			if st.Cmd == "client" {
				exp, err := d.wantClient(st.T.Out)
				if err != nil {
					return fail(i, "harness: "+err.Error(), nil), steps, okKinds
				}
				if so != exp {
					return fail(i, "client output differs", map[string]any{"got": so, "want": exp}), steps, okKinds
				}
			} else {
				exp, err := d.wantTables(st.T.Out)
				if err != nil {
					return fail(i, "harness: "+err.Error(), nil), steps, okKinds
				}
				got, perr := parseTables(so)
				if perr != nil || fmt.Sprint(got) != fmt.Sprint(exp) {
					return fail(i, "driver tables differ", map[string]any{"got": got, "want": exp, "stdout": tail(so, 800), "parse": fmt.Sprint(perr)}), steps, okKinds
				}
			}
			if r.srv != nil {
				select {
				case <-r.done:
					r.done <- nil
					return fail(i, "the server process died", nil), steps, okKinds
				default:
				}
			}
		}
		if want == 0 {
			okKinds[st.Cmd]++
		} else if want == 2 {
			okKinds[st.Cmd+"-blocked"]++
		}
	}
	return nil, steps, okKinds
}
