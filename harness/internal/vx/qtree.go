package vx

import (
	"encoding/json"

	proto "github.com/akrennmair/updog/proto/updog/v1"
)

// QTree mirrors the TLA+ query-language tree: strings are byte tuples.
type QTree struct {
	Op  string   `json:"op"`
	Col []int    `json:"col,omitempty"`
	Val []int    `json:"val,omitempty"`
	Ph  int      `json:"ph,omitempty"`
	E   *QTree   `json:"e,omitempty"`
	Es  []*QTree `json:"es,omitempty"`
}

func (t *QTree) MarshalJSON() ([]byte, error) {
	nz := func(b []int) []int {
		if b == nil {
			return []int{}
		}
		return b
	}
	switch t.Op {
	case "eq":
		return json.Marshal(map[string]any{"op": "eq", "col": nz(t.Col), "val": nz(t.Val), "ph": t.Ph})
	case "not":
		return json.Marshal(map[string]any{"op": "not", "e": t.E})
	case "and", "or":
		es := t.Es
		if es == nil {
			es = []*QTree{}
		}
		return json.Marshal(map[string]any{"op": t.Op, "es": es})
	}
	return json.Marshal(map[string]any{"op": t.Op})
}

func BytesOf(s string) []int { return bytesOf(s) }

func StringOf(b []int) string {
	out := make([]byte, len(b))
	for i, x := range b {
		out[i] = byte(x)
	}
	return string(out)
}

// FromProto converts a protobuf expression; unset parts become {"op":"hole"}.
func FromProto(e *proto.Query_Expression) *QTree {
	if e == nil {
		return &QTree{Op: "hole"}
	}
	switch v := e.Value.(type) {
	case *proto.Query_Expression_Eq:
		if v.Eq == nil {
			return &QTree{Op: "hole"}
		}
		return &QTree{Op: "eq", Col: bytesOf(v.Eq.Column), Val: bytesOf(v.Eq.Value), Ph: int(v.Eq.Placeholder)}
	case *proto.Query_Expression_Not_:
		if v.Not == nil {
			return &QTree{Op: "hole"}
		}
		return &QTree{Op: "not", E: FromProto(v.Not.Expr)}
	case *proto.Query_Expression_And_:
		if v.And == nil {
			return &QTree{Op: "hole"}
		}
		t := &QTree{Op: "and"}
		for _, s := range v.And.Exprs {
			t.Es = append(t.Es, FromProto(s))
		}
		return t
	case *proto.Query_Expression_Or_:
		if v.Or == nil {
			return &QTree{Op: "hole"}
		}
		t := &QTree{Op: "or"}
		for _, s := range v.Or.Exprs {
			t.Es = append(t.Es, FromProto(s))
		}
		return t
	}
	return &QTree{Op: "hole"}
}

// ToProto builds the protobuf expression of a tree.
func (t *QTree) ToProto() *proto.Query_Expression {
	switch t.Op {
	case "eq":
		return &proto.Query_Expression{Value: &proto.Query_Expression_Eq{Eq: &proto.Query_Expression_Equal{Column: StringOf(t.Col), Value: StringOf(t.Val), Placeholder: int32(t.Ph)}}}
	case "not":
		return &proto.Query_Expression{Value: &proto.Query_Expression_Not_{Not: &proto.Query_Expression_Not{Expr: t.E.ToProto()}}}
	case "and":
		x := &proto.Query_Expression_And{}
		for _, s := range t.Es {
			x.Exprs = append(x.Exprs, s.ToProto())
		}
		return &proto.Query_Expression{Value: &proto.Query_Expression_And_{And: x}}
	case "or":
		x := &proto.Query_Expression_Or{}
		for _, s := range t.Es {
			x.Exprs = append(x.Exprs, s.ToProto())
		}
		return &proto.Query_Expression{Value: &proto.Query_Expression_Or_{Or: x}}
	}
	return nil
}

func (t *QTree) Equal(o *QTree) bool {
	if t == nil || o == nil {
		return t == o
	}
	if t.Op != o.Op || t.Ph != o.Ph || !eqInts(t.Col, o.Col) || !eqInts(t.Val, o.Val) || len(t.Es) != len(o.Es) {
		return false
	}
	if (t.E == nil) != (o.E == nil) || (t.E != nil && !t.E.Equal(o.E)) {
		return false
	}
	for i := range t.Es {
		if !t.Es[i].Equal(o.Es[i]) {
			return false
		}
	}
	return true
}
