package vx

import (
	"fmt"
	"runtime/debug"
	"strings"

	"github.com/akrennmair/updog"
)

// Panic describes a panic of the code under test; it is an observation, never a harness failure.
type Panic struct {
	Value string
	Stack string
}

// Safely runs f and reports a panic instead of dying.
func Safely(f func()) (p *Panic) {
	defer func() {
		if r := recover(); r != nil {
			st := string(debug.Stack())
			// keep the frames of the code under test
			var keep []string
			for _, l := range strings.Split(st, "\n") {
				if strings.Contains(l, "updog") && !strings.Contains(l, "zverif") {
					keep = append(keep, strings.TrimSpace(l))
				}
			}
			if len(keep) > 8 {
				keep = keep[:8]
			}
			p = &Panic{Value: fmt.Sprint(r), Stack: strings.Join(keep, " | ")}
		}
	}()
	f()
	return nil
}

// Exec runs a query, converting a panic into (nil, error, panic).
func Exec(idx *updog.Index, q *updog.Query) (res *updog.Result, err error, p *Panic) {
	p = Safely(func() { res, err = idx.Execute(q) })
	if p != nil {
		return nil, fmt.Errorf("panic: %s", p.Value), p
	}
	return res, err, nil
}

// ResOf projects the outcome of Exec; a panic is reported as a result no specification allows.
func (d *Dict) ResOf(res *updog.Result, err error, p *Panic) Res {
	if p != nil {
		return Res{Ok: true, Count: 1<<62 + 1, Groups: []Group{{Cols: []int{-7}, Vals: []int{-7}, Count: 0}}, Panic: p.Value + " @ " + p.Stack}
	}
	return d.FromResult(res, err)
}
