// Package vx holds what all vdrive sub-commands share: the JSON shapes exchanged with the
// TLA+ side (expressions, queries, results over ranks), the rank<->bytes dictionary and
// helpers to build and open real updog indexes.
package vx

import (
	"encoding/json"
	"fmt"

	"github.com/akrennmair/updog"
)

// Expr mirrors the TLA+ record [op, col, val, e, es]; columns and values are ranks.
type Expr struct {
	Op  string  `json:"op"`
	Col int     `json:"col,omitempty"`
	Val int     `json:"val,omitempty"`
	Ph  int     `json:"ph,omitempty"`
	E   *Expr   `json:"e,omitempty"`
	Es  []*Expr `json:"es,omitempty"`
}

// MarshalJSON writes exactly the fields the TLA+ record of that operator has.
func (e *Expr) MarshalJSON() ([]byte, error) {
	switch e.Op {
	case "eq":
		return json.Marshal(map[string]any{"op": "eq", "col": e.Col, "val": e.Val})
	case "ph":
		return json.Marshal(map[string]any{"op": "ph", "col": e.Col, "ph": e.Ph})
	case "not":
		return json.Marshal(map[string]any{"op": "not", "e": e.E})
	case "and", "or":
		es := e.Es
		if es == nil {
			es = []*Expr{}
		}
		return json.Marshal(map[string]any{"op": e.Op, "es": es})
	}
	return json.Marshal(map[string]any{"op": e.Op})
}

type Group struct {
	Cols  []int  `json:"cols"`
	Vals  []int  `json:"vals"`
	Count uint64 `json:"count"`
}

type Res struct {
	Ok     bool    `json:"ok"`
	Count  uint64  `json:"count"`
	Groups []Group `json:"groups"`
	Panic  string  `json:"panic,omitempty"`
}

type Query struct {
	E  *Expr `json:"e"`
	GB []int `json:"gb"`
}

func (r Res) Equal(o Res) bool {
	if r.Ok != o.Ok {
		return false
	}
	if !r.Ok {
		return true
	}
	if r.Count != o.Count || len(r.Groups) != len(o.Groups) {
		return false
	}
	for i := range r.Groups {
		a, b := r.Groups[i], o.Groups[i]
		if a.Count != b.Count || !eqInts(a.Cols, b.Cols) || !eqInts(a.Vals, b.Vals) {
			return false
		}
	}
	return true
}

func eqInts(a, b []int) bool {
	if len(a) != len(b) {
		return false
	}
	for i := range a {
		if a[i] != b[i] {
			return false
		}
	}
	return true
}

// Dict maps ranks (1-based) to concrete strings, strictly increasing byte-wise.
type Dict struct {
	Cols []string
	Vals []string
	ci   map[string]int
	vi   map[string]int
}

func NewDict(cols, vals []string) *Dict {
	d := &Dict{Cols: cols, Vals: vals, ci: map[string]int{}, vi: map[string]int{}}
	for i, c := range cols {
		d.ci[c] = i + 1
	}
	for i, v := range vals {
		d.vi[v] = i + 1
	}
	return d
}

func (d *Dict) Col(r int) string { return d.Cols[r-1] }
func (d *Dict) Val(r int) string { return d.Vals[r-1] }

// ColRank returns -1 for strings that are not in the dictionary (the spec rejects them).
func (d *Dict) ColRank(s string) int {
	if r, ok := d.ci[s]; ok {
		return r
	}
	return -1
}
func (d *Dict) ValRank(s string) int {
	if r, ok := d.vi[s]; ok {
		return r
	}
	return -1
}

func bytesOf(s string) []int {
	b := make([]int, len(s))
	for i := 0; i < len(s); i++ {
		b[i] = int(s[i])
	}
	return b
}

// Event returns the Dict trace event (strings as byte tuples; the spec checks the order).
func (d *Dict) Event() map[string]any {
	cs := make([][]int, len(d.Cols))
	for i, c := range d.Cols {
		cs[i] = bytesOf(c)
	}
	vs := make([][]int, len(d.Vals))
	for i, v := range d.Vals {
		vs[i] = bytesOf(v)
	}
	return map[string]any{"ev": "Dict", "cols": cs, "vals": vs}
}

// ToUpdog converts a rank expression into a library expression.
func (d *Dict) ToUpdog(e *Expr) updog.Expression {
	switch e.Op {
	case "eq":
		return &updog.ExprEqual{Column: d.Col(e.Col), Value: d.Val(e.Val)}
	case "not":
		return &updog.ExprNot{Expr: d.ToUpdog(e.E)}
	case "and":
		x := &updog.ExprAnd{}
		for _, s := range e.Es {
			x.Exprs = append(x.Exprs, d.ToUpdog(s))
		}
		return x
	case "or":
		x := &updog.ExprOr{}
		for _, s := range e.Es {
			x.Exprs = append(x.Exprs, d.ToUpdog(s))
		}
		return x
	}
	panic(fmt.Sprintf("bad op %q", e.Op))
}

func (d *Dict) ToQuery(q Query) *updog.Query {
	uq := &updog.Query{Expr: d.ToUpdog(q.E)}
	for _, c := range q.GB {
		uq.GroupBy = append(uq.GroupBy, d.Col(c))
	}
	return uq
}

// FromResult projects a library result onto ranks.
func (d *Dict) FromResult(r *updog.Result, err error) Res {
	if err != nil || r == nil {
		return Res{Ok: false, Groups: []Group{}}
	}
	out := Res{Ok: true, Count: r.Count, Groups: []Group{}}
	for _, g := range r.Groups {
		gg := Group{Count: g.Count, Cols: []int{}, Vals: []int{}}
		for _, f := range g.Fields {
			gg.Cols = append(gg.Cols, d.ColRank(f.Column))
			gg.Vals = append(gg.Vals, d.ValRank(f.Value))
		}
		out.Groups = append(out.Groups, gg)
	}
	// The Result belongs to the caller.  After projecting it, it is post-processed in place the way callers do (groups
	// re-ordered, fields relabelled, counts adjusted): no later answer may depend on what happened to an earlier one.
	for i, j := 0, len(r.Groups)-1; i < j; i, j = i+1, j-1 {
		r.Groups[i], r.Groups[j] = r.Groups[j], r.Groups[i]
	}
	for i := range r.Groups {
		r.Groups[i].Count += 1000003
		for k := range r.Groups[i].Fields {
			r.Groups[i].Fields[k].Column, r.Groups[i].Fields[k].Value = "scribbled", "by the caller"
		}
	}
	r.Count += 7
	return out
}

// Row is a list of [colRank, valRank] pairs.
type Row [][2]int

func (d *Dict) RowMap(r Row) map[string]string {
	m := make(map[string]string, len(r))
	for _, p := range r {
		m[d.Col(p[0])] = d.Val(p[1])
	}
	return m
}

// ToUpdogWithLeaves converts like ToUpdog and also returns the library's leaf nodes in prefix order,
// so that a caller-held expression can be modified in place between executions.
func (d *Dict) ToUpdogWithLeaves(e *Expr, leaves *[]*updog.ExprEqual, src *[]*Expr) updog.Expression {
	switch e.Op {
	case "eq":
		l := &updog.ExprEqual{Column: d.Col(e.Col), Value: d.Val(e.Val)}
		*leaves = append(*leaves, l)
		*src = append(*src, e)
		return l
	case "not":
		return &updog.ExprNot{Expr: d.ToUpdogWithLeaves(e.E, leaves, src)}
	case "and":
		x := &updog.ExprAnd{}
		for _, s := range e.Es {
			x.Exprs = append(x.Exprs, d.ToUpdogWithLeaves(s, leaves, src))
		}
		return x
	}
	x := &updog.ExprOr{}
	for _, s := range e.Es {
		x.Exprs = append(x.Exprs, d.ToUpdogWithLeaves(s, leaves, src))
	}
	return x
}

// CloneExpr deep-copies a rank expression.
func CloneExpr(e *Expr) *Expr {
	if e == nil {
		return nil
	}
	c := &Expr{Op: e.Op, Col: e.Col, Val: e.Val, Ph: e.Ph, E: CloneExpr(e.E)}
	for _, s := range e.Es {
		c.Es = append(c.Es, CloneExpr(s))
	}
	return c
}
