package vx

import (
	"bufio"
	"encoding/json"
	"os"
)

// NDJSON writer for traces and reports.
type NDWriter struct {
	f *os.File
	w *bufio.Writer
	N int
}

func NewNDWriter(path string) (*NDWriter, error) {
	f, err := os.Create(path)
	if err != nil {
		return nil, err
	}
	return &NDWriter{f: f, w: bufio.NewWriterSize(f, 1<<20)}, nil
}

func (n *NDWriter) Emit(v any) {
	b, err := json.Marshal(v)
	if err != nil {
		panic(err)
	}
	n.w.Write(b)
	n.w.WriteByte('\n')
	n.N++
}

func (n *NDWriter) Close() error {
	if err := n.w.Flush(); err != nil {
		return err
	}
	return n.f.Close()
}

// ReadLines calls fn for every line of an ndjson file.
func ReadLines(path string, fn func(line []byte) error) error {
	f, err := os.Open(path)
	if err != nil {
		return err
	}
	defer f.Close()
	sc := bufio.NewScanner(f)
	sc.Buffer(make([]byte, 1<<20), 1<<30)
	for sc.Scan() {
		if len(sc.Bytes()) == 0 {
			continue
		}
		if err := fn(sc.Bytes()); err != nil {
			return err
		}
	}
	return sc.Err()
}

// Report is what every replay command prints on stdout (one JSON object).
type Report struct {
	Behaviours int              `json:"behaviours"`
	Steps      int              `json:"steps"`
	Distinct   int              `json:"distinct"`
	Mismatches []map[string]any `json:"mismatches"`
	Samples    []any            `json:"samples"`
	Notes      map[string]any   `json:"notes,omitempty"`
}

func (r *Report) Mismatch(m map[string]any) {
	if len(r.Mismatches) < 200 {
		r.Mismatches = append(r.Mismatches, m)
	}
}

func (r *Report) Print() {
	if r.Mismatches == nil {
		r.Mismatches = []map[string]any{}
	}
	b, _ := json.Marshal(r)
	os.Stdout.Write(b)
	os.Stdout.Write([]byte("\n"))
}
