package vx

import (
	"bytes"
	"runtime"
	"strconv"
	"sync"
	"time"
)

// GoID returns the id of the calling goroutine (parsed from runtime.Stack).
func GoID() int64 {
	var buf [64]byte
	n := runtime.Stack(buf[:], false)
	f := bytes.Fields(buf[:n])
	if len(f) < 2 {
		return -1
	}
	id, _ := strconv.ParseInt(string(f[1]), 10, 64)
	return id
}

// Gates lets a scheduler release registered goroutines one step at a time. A goroutine calls
// Arrive at each gate and blocks until released; Done when it has finished.
type Gates struct {
	mu     sync.Mutex
	byGo   map[int64]int
	rel    map[int]chan struct{}
	events chan gateEv
}

type gateEv struct {
	T    int
	Done bool
}

func NewGates() *Gates {
	return &Gates{byGo: map[int64]int{}, rel: map[int]chan struct{}{}, events: make(chan gateEv, 1024)}
}

// Register binds the calling goroutine to thread id t.
func (g *Gates) Register(t int) {
	g.mu.Lock()
	g.byGo[GoID()] = t
	g.rel[t] = make(chan struct{})
	g.mu.Unlock()
}

// Thread returns the thread id of the calling goroutine (0 if unregistered).
func (g *Gates) Thread() int {
	g.mu.Lock()
	defer g.mu.Unlock()
	return g.byGo[GoID()]
}

// Arrive blocks the calling (registered) goroutine until the scheduler releases it.
func (g *Gates) Arrive() {
	g.mu.Lock()
	t := g.byGo[GoID()]
	ch := g.rel[t]
	g.mu.Unlock()
	if t == 0 {
		return
	}
	g.events <- gateEv{T: t}
	<-ch
}

func (g *Gates) Done() {
	g.mu.Lock()
	t := g.byGo[GoID()]
	g.mu.Unlock()
	g.events <- gateEv{T: t, Done: true}
}

// Wait returns the next gate event, or ok=false after the timeout.
func (g *Gates) Wait(d time.Duration) (t int, done bool, ok bool) {
	select {
	case e := <-g.events:
		return e.T, e.Done, true
	case <-time.After(d):
		return 0, false, false
	}
}

// Release lets thread t run to its next gate.
func (g *Gates) Release(t int) {
	g.mu.Lock()
	ch := g.rel[t]
	g.mu.Unlock()
	ch <- struct{}{}
}
