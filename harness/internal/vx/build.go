package vx

import (
	"crypto/sha256"
	"encoding/hex"
	"fmt"
	"math/rand"
	"os"
	"path/filepath"
	"sort"

	"github.com/akrennmair/updog"
	"github.com/akrennmair/updog/internal/openfile"
	"go.etcd.io/bbolt"
)

// Writer abstracts the three ways of producing an index file.
type Writer struct {
	Kind string // mem | memdb | big
	Path string
	mem  *updog.IndexWriter
	big  *updog.BigIndexWriter
	out  *bbolt.DB
	tmp  *bbolt.DB
	tmpP string
}

func NewWriter(kind, path string) (*Writer, error) {
	w := &Writer{Kind: kind, Path: path}
	switch kind {
	case "mem", "memdb":
		w.mem = updog.NewIndexWriter(path)
	case "big":
		w.tmpP = path + ".tmpdb"
		f, err := os.Create(w.tmpP)
		if err != nil {
			return nil, err
		}
		f.Close()
		tmp, err := bbolt.Open(w.tmpP, 0600, &bbolt.Options{NoSync: true, NoFreelistSync: true})
		if err != nil {
			return nil, err
		}
		out, err := bbolt.Open(path, 0644, &bbolt.Options{NoSync: true, OpenFile: openfile.OpenFile(openfile.Options{FailIfFileExists: true})})
		if err != nil {
			tmp.Close()
			os.Remove(w.tmpP)
			return nil, err
		}
		w.tmp, w.out = tmp, out
		bw, err := updog.NewBigIndexWriter(out, tmp)
		if err != nil {
			return nil, err
		}
		w.big = bw
	default:
		return nil, fmt.Errorf("bad writer kind %q", kind)
	}
	return w, nil
}

func (w *Writer) AddRow(m map[string]string) (uint32, error) {
	if w.big != nil {
		return w.big.AddRow(m)
	}
	return w.mem.AddRow(m)
}

// Flush writes the index and releases everything the writer holds.
func (w *Writer) Flush() error {
	switch w.Kind {
	case "mem":
		return w.mem.Flush()
	case "memdb":
		db, err := bbolt.Open(w.Path, 0644, &bbolt.Options{NoSync: true, OpenFile: openfile.OpenFile(openfile.Options{FailIfFileExists: true})})
		if err != nil {
			return err
		}
		err = w.mem.WriteToBoltDatabase(db)
		if cerr := db.Close(); err == nil {
			err = cerr
		}
		return err
	default:
		err := w.big.Flush()
		w.Abandon()
		return err
	}
}

// Abandon releases the big writer's databases without flushing.
func (w *Writer) Abandon() {
	if w.out != nil {
		w.out.Close()
		w.out = nil
	}
	if w.tmp != nil {
		w.tmp.Close()
		w.tmp = nil
		os.Remove(w.tmpP)
	}
}

// Open opens an index: mode ondemand|preload, cache none|lru (capacity in bytes).
func Open(path, mode, cache string, capacity uint64) (*updog.Index, error) {
	var opts []updog.IndexOption
	if cache == "lru" {
		opts = append(opts, updog.WithCache(updog.NewLRUCache(capacity)))
	}
	if mode == "preload" {
		opts = append(opts, updog.WithPreloadedData())
	}
	return updog.OpenIndex(path, opts...)
}

func FileHash(path string) string {
	b, err := os.ReadFile(path)
	if err != nil {
		return "absent"
	}
	h := sha256.Sum256(b)
	return hex.EncodeToString(h[:])
}

// Scratch returns a fresh directory for index files (prefers VERIF_SCRATCH, i.e. /dev/shm).
func Scratch(name string) string {
	base := os.Getenv("VERIF_WORK")
	if base == "" {
		base = os.TempDir()
	}
	d, err := os.MkdirTemp(base, name)
	if err != nil {
		panic(err)
	}
	return d
}

var nastyPool = []string{
	"", " ", "a", "A", "b", "ab", "a b", "a\"b", "\"", "\"\"", "a,b", ",", "line\nbreak", "\r\n", "\t",
	"caf\xc3\xa9", "\xe6\x97\xa5\xe6\x9c\xac", "\xf0\x9f\x90\xb6", "\xff", "\xff\xfe", "\xc3", "\x01", "\x7f",
	"zz", "z", "0", "00", "1", "10", "-1", "null", "NULL", "true", "$1", "a=b", "a&b", "^", "(", ")", ";", "=",
	"\x00", "a\x00", "a\x00b", "\x00\x00", "long_long_long_long_long_long_long_long_long_long_long_long_value",
}

var colPool = []string{
	"a", "b", "c", "A", "ab", "a_b", "col", "x", "y", "z", "a b", "a\"b", "a,b", "caf\xc3\xa9", "\xff", "",
	"\xe6\x97\xa5", "line\nbreak", "q1", "Z9", "count", "_", "0", "a=b",
}

// PickSorted draws n distinct strings from pool (padded with generated ones) and sorts them byte-wise.
func PickSorted(rng *rand.Rand, pool []string, n int, gen func(i int) string) []string {
	seen := map[string]bool{}
	var out []string
	perm := rng.Perm(len(pool))
	for _, i := range perm {
		if len(out) >= n {
			break
		}
		if !seen[pool[i]] {
			seen[pool[i]] = true
			out = append(out, pool[i])
		}
	}
	for i := 0; len(out) < n; i++ {
		s := gen(i)
		if !seen[s] {
			seen[s] = true
			out = append(out, s)
		}
	}
	sort.Strings(out)
	return out
}

// SmallDict builds a dictionary for the enumerated (replay) direction.
func SmallDict(rng *rand.Rand, ncols, nvals int) *Dict {
	cols := PickSorted(rng, colPool, ncols, func(i int) string { return fmt.Sprintf("c%03d", i) })
	vals := PickSorted(rng, nastyPool, nvals, func(i int) string { return fmt.Sprintf("v%05d", i) })
	return NewDict(cols, vals)
}

func Join(dir, name string) string { return filepath.Join(dir, name) }
