package vx

import (
	"crypto/sha256"
	"encoding/hex"
	"fmt"
	"math/rand"
	"os"
	"path/filepath"
	"sort"
	"sync"
	"sync/atomic"
	"time"

	"github.com/akrennmair/updog"
	"github.com/akrennmair/updog/internal/openfile"
	"go.etcd.io/bbolt"
)

// Writer abstracts the three ways of producing an index file.
type Writer struct {
	Kind string // mem | memdb | big
	Path string
	mem  *updog.IndexWriter
	big  *updog.BigIndexWriter
	out  *bbolt.DB
	tmp  *bbolt.DB
	tmpP string

	rowsMu sync.Mutex
	rows   int // AddRow calls so far (scales the Flush time limit)
}

func NewWriter(kind, path string) (*Writer, error) {
	w := &Writer{Kind: kind, Path: path}
	switch kind {
	case "mem", "memdb":
		w.mem = updog.NewIndexWriter(path)
	case "big":
		w.tmpP = path + ".tmpdb"
		f, err := os.Create(w.tmpP)
		if err != nil {
			return nil, err
		}
		f.Close()
		tmp, err := bbolt.Open(w.tmpP, 0600, &bbolt.Options{NoSync: true, NoFreelistSync: true})
		if err != nil {
			return nil, err
		}
		out, err := bbolt.Open(path, 0644, &bbolt.Options{NoSync: true, OpenFile: openfile.OpenFile(openfile.Options{FailIfFileExists: true})})
		if err != nil {
			tmp.Close()
			os.Remove(w.tmpP)
			return nil, err
		}
		w.tmp, w.out = tmp, out
		bw, err := updog.NewBigIndexWriter(out, tmp)
		if err != nil {
			return nil, err
		}
		w.big = bw
	default:
		return nil, fmt.Errorf("bad writer kind %q", kind)
	}
	return w, nil
}

// AddRow calls the real writer; a panic of the code under test is reported as an error.
func (w *Writer) AddRow(m map[string]string) (id uint32, err error) {
	w.rowsMu.Lock()
	w.rows++
	w.rowsMu.Unlock()
	if p := Safely(func() {
		if w.big != nil {
			id, err = w.big.AddRow(m)
		} else {
			id, err = w.mem.AddRow(m)
		}
	}); p != nil {
		return 0, fmt.Errorf("panic in AddRow: %s @ %s", p.Value, p.Stack)
	}
	return id, err
}

// Flush writes the index and releases everything the writer holds; a panic of the code under
// test is reported as an error.
func (w *Writer) Flush() (err error) {
	// a Flush that never returns (e.g. a Close waiting for a leaked transaction) is reported as an error after a
	// generous time limit; the stuck goroutine is left behind
	done := make(chan error, 1)
	go func() {
		var ferr error
		if p := Safely(func() { ferr = w.flush() }); p != nil {
			ferr = fmt.Errorf("panic in Flush: %s @ %s", p.Value, p.Stack)
		}
		done <- ferr
	}()
	limit := 60*time.Second + time.Duration(w.rows/500)*time.Second
	select {
	case err = <-done:
		return err
	case <-time.After(limit):
		return fmt.Errorf("Flush did not return within %v (hang)", limit)
	}
}

func (w *Writer) flush() error {
	switch w.Kind {
	case "mem":
		return w.mem.Flush()
	case "memdb":
		db, err := bbolt.Open(w.Path, 0644, &bbolt.Options{NoSync: true, OpenFile: openfile.OpenFile(openfile.Options{FailIfFileExists: true})})
		if err != nil {
			return err
		}
		err = w.mem.WriteToBoltDatabase(db)
		if cerr := db.Close(); err == nil {
			err = cerr
		}
		return err
	default:
		err := w.big.Flush()
		w.Abandon()
		return err
	}
}

// Abandon releases the big writer's databases without flushing.
func (w *Writer) Abandon() {
	if w.out != nil {
		w.out.Close()
		w.out = nil
	}
	if w.tmp != nil {
		w.tmp.Close()
		w.tmp = nil
		os.Remove(w.tmpP)
	}
}

// ObsCounter is a HistogramMetric that counts its observations.
type ObsCounter struct{ N atomic.Int64 }

func (o *ObsCounter) Observe(float64) { o.N.Add(1) }

// OpenObserved is Open with an IndexMetrics histogram attached.
func OpenObserved(path, mode, cache string, capacity uint64, obs *ObsCounter) (*updog.Index, error) {
	return open(path, mode, cache, capacity, obs)
}

// Open opens an index: mode ondemand|preload, cache none|lru (capacity in bytes).
func Open(path, mode, cache string, capacity uint64) (*updog.Index, error) {
	return open(path, mode, cache, capacity, nil)
}

func open(path, mode, cache string, capacity uint64, obs *ObsCounter) (*updog.Index, error) {
	var opts []updog.IndexOption
	if obs != nil {
		opts = append(opts, updog.WithIndexMetrics(&updog.IndexMetrics{ExecuteDuration: obs}))
	}
	if cache == "lru" {
		opts = append(opts, updog.WithCache(updog.NewLRUCache(capacity)))
	}
	if mode == "preload" {
		opts = append(opts, updog.WithPreloadedData())
	}
	return updog.OpenIndex(path, opts...)
}

func FileHash(path string) string {
	b, err := os.ReadFile(path)
	if err != nil {
		return "absent"
	}
	h := sha256.Sum256(b)
	return hex.EncodeToString(h[:])
}

// Scratch returns a fresh directory for index files (prefers VERIF_SCRATCH, i.e. /dev/shm).
func Scratch(name string) string {
	base := os.Getenv("VERIF_WORK")
	if base == "" {
		base = os.TempDir()
	}
	d, err := os.MkdirTemp(base, name)
	if err != nil {
		panic(err)
	}
	return d
}

var nastyPool = []string{
	"", " ", "a", "A", "b", "ab", "a b", "a\"b", "\"", "\"\"", "a,b", ",", "line\nbreak", "\r\n", "\t",
	"caf\xc3\xa9", "\xe6\x97\xa5\xe6\x9c\xac", "\xf0\x9f\x90\xb6", "\xff", "\xff\xfe", "\xc3", "\x01", "\x7f",
	"zz", "z", "0", "00", "1", "10", "-1", "null", "NULL", "true", "$1", "a=b", "a&b", "^", "(", ")", ";", "=",
	"\x00", "a\x00", "a\x00b", "\x00\x00", "long_long_long_long_long_long_long_long_long_long_long_long_value",
}

var colPool = []string{
	"a", "b", "c", "A", "ab", "a_b", "col", "x", "y", "z", "a b", "a\"b", "a,b", "caf\xc3\xa9", "\xff", "",
	"\xe6\x97\xa5", "line\nbreak", "q1", "Z9", "count", "_", "0", "a=b",
}

// PickSorted draws n distinct strings from pool (padded with generated ones) and sorts them byte-wise.
func PickSorted(rng *rand.Rand, pool []string, n int, gen func(i int) string) []string {
	seen := map[string]bool{}
	var out []string
	perm := rng.Perm(len(pool))
	for _, i := range perm {
		if len(out) >= n {
			break
		}
		if !seen[pool[i]] {
			seen[pool[i]] = true
			out = append(out, pool[i])
		}
	}
	for i := 0; len(out) < n; i++ {
		s := gen(i)
		if !seen[s] {
			seen[s] = true
			out = append(out, s)
		}
	}
	sort.Strings(out)
	return out
}

// SmallDict builds a dictionary for the enumerated (replay) direction. The empty string is always
// one of the values (it sorts first, so it is rank 1: the value most enumerated rows carry).
func SmallDict(rng *rand.Rand, ncols, nvals int) *Dict {
	cols := PickSorted(rng, colPool, ncols, func(i int) string { return fmt.Sprintf("c%03d", i) })
	vals := PickSorted(rng, nastyPool[1:], nvals-1, func(i int) string { return fmt.Sprintf("v%05d", i) })
	vals = append([]string{""}, vals...)
	sort.Strings(vals)
	return NewDict(cols, vals)
}

// AmbiguousDict is the adversarial dictionary: column names that are prefixes of one another and
// values that make up the difference, so that column+value concatenations (without separator, or
// with a blank) coincide: "a"+"b" = "ab"+"", "a"+"b c" ~ "a b"+"c".
func AmbiguousDict(ncols, nvals int) *Dict {
	cols := []string{"a", "ab", "abc", "b"}
	vals := []string{"", "b", "bc", "c"}
	for len(cols) < ncols {
		cols = append(cols, fmt.Sprintf("z%02d", len(cols)))
	}
	for len(vals) < nvals {
		vals = append(vals, fmt.Sprintf("z%02d", len(vals)))
	}
	return NewDict(cols[:ncols], vals[:nvals])
}

func Join(dir, name string) string { return filepath.Join(dir, name) }
