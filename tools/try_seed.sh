#!/bin/bash
# usage: tools/try_seed.sh <PROPERTY_ID> <patch file> [check ids...]   (run from /verif)
# Applies a seeded change to /repo, runs the repository's own tests (must pass) and the named checks
# (default: the property's own check), then restores /repo.
set -u
export GOFLAGS=-mod=mod GOPROXY=off GOSUMDB=off GOTOOLCHAIN=local
PID=$1; PATCH=$2; shift 2; CHECKS=${@:-$PID}
R=${VERIF_REPO:-/repo}; cd $R || exit 2
if [ -n "$(git status --porcelain)" ]; then echo "repo not clean"; exit 2; fi
git apply "$PATCH" || { echo "patch does not apply"; exit 2; }
go build ./... && go build -tags verif ./... || { echo "BUILD FAILS with patch"; git checkout -- .; exit 2; }
T=$(go test -count=1 ./... 2>&1 | grep -v "no test files" | grep -cv "^ok")
echo "repo tests failing packages: $T"
cd /verif
for c in $CHECKS; do
  ./check $c --tier ${TIER:-quick} > /tmp/try_seed_$c.log 2>&1; rc=$?
  echo "check $c rc=$rc  $(grep -c '^VIOLATION' /tmp/try_seed_$c.log) violation lines"
  grep -E "^\[replay\]|^\[trace\]|BROKEN" /tmp/try_seed_$c.log | grep -E "mismatches|REJECTED|BROKEN" | grep -v " 0 mismatches" | cut -c1-160 | head -5
done
git -C $R checkout -- . ; git -C $R status --porcelain | head -3
