#!/usr/bin/env python3
"""For every seeded change under /verif/seeded: git -C /repo apply, run the repository's tests (must pass),
run the property's quick check (must report a violation), undo.  Records what was run in meta.json."""
import json, os, re, subprocess, sys, time
os.environ.update(GOFLAGS="-mod=mod", GOPROXY="off", GOSUMDB="off", GOTOOLCHAIN="local")
only = sys.argv[1:]
res = []
for sid in sorted(os.listdir("/verif/seeded")):
    d = os.path.join("/verif/seeded", sid)
    if not os.path.isdir(d) or (only and sid not in only and sid.split("-")[0] not in only):
        continue
    meta = json.load(open(os.path.join(d, "meta.json")))
    pid = meta["property"]
    if subprocess.run(["git", "-C", "/repo", "status", "--porcelain"], capture_output=True, text=True).stdout.strip():
        print("repo not clean"); sys.exit(2)
    subprocess.run(["git", "-C", "/repo", "apply", os.path.join(d, "patch.diff")], check=True)
    try:
        t = subprocess.run("go build ./... && go build -tags verif ./... && go test -count=1 ./...", shell=True, cwd="/repo", capture_output=True, text=True)
        tests_ok = t.returncode == 0
        t0 = time.time()
        c = subprocess.run(["./check", pid, "--tier", "quick"], cwd="/verif", capture_output=True, text=True)
        dt = time.time() - t0
        flagged = sorted(set(re.findall(r"^\[(?:replay|trace)\] ([^:]+): .*(?:[1-9]\d* mismatches|REJECTED)", c.stderr, re.M)))
        nviol = len(re.findall(r"^VIOLATION ", c.stdout, re.M))
    finally:
        subprocess.run(["git", "-C", "/repo", "checkout", "--", "."], check=True)
        # a patch may add files: checkout leaves them behind, so remove exactly the files the patch created
        for nf in re.findall(r"^diff --git a/(\S+) b/\S+\nnew file mode", open(os.path.join(d, "patch.diff")).read(), re.M):
            fp = os.path.join("/repo", nf)
            if os.path.exists(fp):
                os.remove(fp)
    meta["ran"] = ["git -C /repo apply seeded/%s/patch.diff" % sid,
                   "cd /repo && go build ./... && go build -tags verif ./... && go test -count=1 ./...  -> %s" % ("pass" if tests_ok else "FAIL"),
                   "cd /verif && ./check %s --tier quick  -> exit %d, %d VIOLATION lines, %.0f s" % (pid, c.returncode, nviol, dt),
                   "git -C /repo checkout -- .  (+ removal of files the patch added)"]
    meta["caught_by"] = flagged
    meta["detected"] = c.returncode == 1
    json.dump(meta, open(os.path.join(d, "meta.json"), "w"), indent=1)
    print("%-7s tests=%s check_rc=%d violations=%d flagged=%s" % (sid, "pass" if tests_ok else "FAIL", c.returncode, nviol, ",".join(flagged)), flush=True)
