#!/bin/bash
# usage: tools/confirm_demo.sh <worktree> <patch> [extra go test flags]  -- demo must pass without and fail with the patch
export GOFLAGS=-mod=mod GOPROXY=off GOSUMDB=off GOTOOLCHAIN=local
W=$1; P=$2; shift 2
cd $W || exit 2
git checkout -q -- . 
a=$(go test -count=1 -tags verif "$@" ./... 2>&1 | grep -av "no test files" | grep -ac "^FAIL\|^---.*FAIL\|^panic")
git apply $P || exit 2
b=$(go test -count=1 -tags verif "$@" ./... 2>&1 | grep -av "no test files" | grep -ac "^FAIL\|^--- FAIL\|^panic\|DATA RACE")
git checkout -q -- .
echo "$(basename $W) $(basename $P): failing-lines without=$a with=$b  => $([ "$a" = 0 ] && [ "$b" != 0 ] && echo CONFIRMED || echo NOT-CONFIRMED)"
