#!/usr/bin/env python3
"""Copies the confirmed seeded changes from the sub-agents' scratch worktrees into /verif/seeded/<id>/
(patch.diff, demonstration, notes.md, meta.json skeleton)."""
import glob, json, os, shutil, subprocess, sys
SRC = "/tmp/seed"
NEEDS = json.load(open("/verif/tools/seed_needs.json"))
for pid in sorted(os.listdir(SRC)):
    d = os.path.join(SRC, pid)
    if not os.path.isdir(d) or not pid.startswith("C"):
        continue
    for n, pf in ((1, "patch.diff"), (2, "patch2.diff")):
        p = os.path.join(d, pf)
        if not os.path.exists(p):
            continue
        sid = "%s-%d" % (pid, n)
        out = os.path.join("/verif/seeded", sid)
        os.makedirs(os.path.join(out, "demo"), exist_ok=True)
        shutil.copy(p, os.path.join(out, "patch.diff"))
        demo = os.path.join(d, "demo" if n == 1 else "demo2")
        if os.path.isdir(demo):
            for f in os.listdir(demo):
                if f.endswith("_test.go") or f.endswith(".sh") or f.endswith(".go"):
                    shutil.copy(os.path.join(demo, f), os.path.join(out, "demo", f))
        # helper test files next to the demos (e.g. C17)
        for f in glob.glob(os.path.join(d, "**", "seeded_demo_helpers_test.go"), recursive=True):
            shutil.copy(f, os.path.join(out, "demo", os.path.basename(f)))
        if os.path.exists(os.path.join(d, "notes.md")):
            shutil.copy(os.path.join(d, "notes.md"), os.path.join(out, "notes.md"))
        meta = dict(id=sid, property=pid, needs=NEEDS.get(sid, "see notes.md"),
                    written_by="fresh sub-agent given only the property text and a scratch worktree of /repo",
                    confirmed=["go build ./... && go build -tags verif ./... with the patch: ok",
                               "repository test suite (go test -count=1 ./...) with the patch: all packages pass",
                               "demonstration: passes on the unmodified worktree, fails with the patch (tools/confirm_demo.sh)"],
                    ran=[], caught_by=[])
        mp = os.path.join(out, "meta.json")
        if os.path.exists(mp):
            old = json.load(open(mp))
            meta["ran"], meta["caught_by"] = old.get("ran", []), old.get("caught_by", [])
        json.dump(meta, open(mp, "w"), indent=1)
        print("stored", sid)
