#!/usr/bin/env python3
"""Prints the markdown table of seeded changes (DESIGN.md section 12) from seeded/*/meta.json."""
import json, os
print("| seeded change | property | what it needs in order to manifest | detected by the quick check | sub-checks that flagged it |")
print("|---|---|---|---|---|")
for sid in sorted(os.listdir("/verif/seeded")):
    mp = os.path.join("/verif/seeded", sid, "meta.json")
    if not os.path.exists(mp):
        continue
    m = json.load(open(mp))
    print("| %s | %s | %s | %s | %s |" % (sid, m["property"], m["needs"].replace("|", "/"), {True: "yes", False: "NO", None: "?"}[m.get("detected")], ", ".join(m.get("caught_by", [])) or "-"))
