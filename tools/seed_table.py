#!/usr/bin/env python3
"""Prints the markdown table of seeded changes (DESIGN.md section 12) from seeded/*/meta.json;
with --write replaces the table in /verif/DESIGN.md in place."""
import json, os, re, sys
rows = ["| seeded change | property | what it needs in order to manifest | detected by the quick check | sub-checks that flagged it |", "|---|---|---|---|---|"]
n = det = 0
for sid in sorted(os.listdir("/verif/seeded")):
    mp = os.path.join("/verif/seeded", sid, "meta.json")
    if not os.path.exists(mp):
        continue
    m = json.load(open(mp))
    n += 1
    det += 1 if m.get("detected") else 0
    rows.append("| %s | %s | %s | %s | %s |" % (sid, m["property"], m["needs"].replace("|", "/"), {True: "yes", False: "NO", None: "?"}[m.get("detected")], ", ".join(m.get("caught_by", [])) or "-"))
if "--write" in sys.argv:
    p = "/verif/DESIGN.md"
    s = open(p).read()
    a = s.index("| seeded change | property |")
    b = s.index("\n\n", a)
    s = s[:a] + "\n".join(rows) + s[b:]
    open(p, "w").write(s)
    print("%d seeded changes, %d detected" % (n, det))
else:
    print("\n".join(rows))
