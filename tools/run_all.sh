#!/bin/bash
# usage: tools/run_all.sh quick|thorough [seed]   -- runs every check on the current tree, one line per check
cd /verif
T=${1:-quick}; export VERIF_SEED=${2:-1}
for p in C01 C02 C03 C04 C05 C06 C07 C08 C09 C10 C11 C12 C13 C14 C15 C16 C17 C18 C19; do
  s=$(date +%s); timeout 3000 ./check $p --tier $T > /tmp/runall_${T}_$p.log 2>&1; rc=$?
  echo "$p tier=$T seed=$VERIF_SEED rc=$rc $(( $(date +%s) - s ))s $(grep -c '^VIOLATION' /tmp/runall_${T}_$p.log) violations $(grep -c '^KNOWN' /tmp/runall_${T}_$p.log) known"
done
