#!/bin/bash
# usage: tools/triage_seed.sh <seed-id> [tier]  -- run the property's check against a scratch worktree with the seeded patch (does not touch /repo's tree)
sid=$1; tier=${2:-quick}; pid=${sid%%-*}
W=/dev/shm/sr_$sid
git -C /repo worktree remove --force $W >/dev/null 2>&1
git -C /repo worktree add --detach $W HEAD >/dev/null 2>&1 || exit 2
git -C $W apply /verif/seeded/$sid/patch.diff || exit 2
s=$(date +%s)
VERIF_REPO=$W ${VERIF_DIR:-/verif}/check $pid --tier $tier > /tmp/triage_${TAG:-t}_$sid.log 2>&1; rc=$?
echo "$sid rc=$rc $(( $(date +%s)-s ))s flagged=$(grep -aE '^\[(replay|trace)\].*([1-9][0-9]* mismatches|REJECTED)' /tmp/triage_${TAG:-t}_$sid.log | sed -E 's/^\[[a-z]+\] ([^:]+):.*/\1/' | sort -u | tr '\n' ',')"
git -C /repo worktree remove --force $W >/dev/null 2>&1
