#!/usr/bin/env python3
"""Re-checks seeded changes with the current version of the checks, several at a time, each against a throw-away
worktree of /repo with the patch applied (tools/triage_seed.sh; /repo's own working tree is not touched).
usage: tools/reverify_seeds.py <streams> [seed-id ...]   (default: every seed)
Records the outcome in seeded/<id>/meta.json under "reverified" and refreshes detected / caught_by."""
import json, os, re, subprocess, sys, time
from concurrent.futures import ThreadPoolExecutor
streams = int(sys.argv[1]) if len(sys.argv) > 1 else 3
ids = sys.argv[2:] or sorted(d for d in os.listdir("/verif/seeded") if os.path.isdir(os.path.join("/verif/seeded", d)))
head = subprocess.run(["git", "-C", "/verif", "rev-parse", "--short", "HEAD"], capture_output=True, text=True).stdout.strip()
def one(sid):
    t0 = time.time()
    r = subprocess.run(["/verif/tools/triage_seed.sh", sid], capture_output=True, text=True, env=dict(os.environ, TAG="rv"))
    line = (r.stdout.strip().splitlines() or [""])[-1]
    m = re.search(r"rc=(\d+) .*flagged=(.*)$", line)
    rc = int(m.group(1)) if m else -1
    flagged = [x for x in (m.group(2).split(",") if m else []) if x]
    mp = os.path.join("/verif/seeded", sid, "meta.json")
    meta = json.load(open(mp))
    meta["reverified"] = {"how": "tools/triage_seed.sh %s (scratch worktree of /repo with the patch applied, quick check of /verif at %s)" % (sid, head),
                          "exit": rc, "flagged": flagged, "seconds": round(time.time() - t0)}
    if rc in (0, 1):
        meta["detected"] = rc == 1
        if rc == 1:
            meta["caught_by"] = flagged
    json.dump(meta, open(mp, "w"), indent=1)
    print("%-7s rc=%d %3ds %s" % (sid, rc, time.time() - t0, ",".join(flagged)), flush=True)
with ThreadPoolExecutor(streams) as ex:
    list(ex.map(one, ids))
